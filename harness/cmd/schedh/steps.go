package main

import (
	"bufio"
	"context"
	"fmt"
	"math"
	"math/rand"
	"os"
	"runtime"
	"strconv"
	"strings"
	"sync"
	"time"

	"github.com/reugn/go-quartz/quartz"
)

// Step correspondence: a scheduler (or two on one queue and locker) is driven one call at a time from a
// single goroutine: API calls, fetchAndReschedule (hook VerifFetchAndReschedule) and foreign changes of
// the queue. After every call the harness prints
//
//	<command for the model driver> TAB <what the implementation did>
//
// in the textual form the driver (ocaml/sched/driver.ml) uses for the model's answer.

const (
	thrNS   = int64(10 * time.Second) // OutdatedThreshold of every scheduler in step mode
	lateNS  = int64(-60 * time.Second)
	dueNS   = int64(-3 * time.Second)
	futNS   = int64(time.Hour)
	stallNS = int64(2 * time.Second) // a scenario older than this is abandoned (classification margins)
)

type world struct {
	variant  string // life: n never started | s started | t stopped ; queue: d default | c copying | h shared by two schedulers
	scheds   []quartz.Scheduler
	rq       *recQueue
	fq       *faultQueue
	locker   *recLocker
	trigs    []*rtrig
	calls    []call
	misfired chan quartz.ScheduledJob
	cancel   []context.CancelFunc
	born     int64
	thr      int64 // OutdatedThreshold of the schedulers of this world
	badWrap  int
	retry    int64 // RetryInterval of the schedulers (0: the default)
	recv     bool  // a goroutine is parked in a receive on the (unbuffered) MisfiredChan whenever a fetch is made
	recvMu   sync.Mutex
	recvGot  []quartz.ScheduledJob
	recvDone chan struct{}
	apiFaults bool               // random API sequences: queue faults (Push / Remove) inside API calls
	written  []*quartz.JobDetail // NewJobDetail-built details whose Options() the harness wrote after construction
	details  []*quartz.JobDetail // every JobDetail object handed to a ScheduleJob call with a usable key, oldest first
}

// wopt: the configuration of a step world beyond queue variant and MisfiredChan capacity.
type wopt struct {
	thr   int64
	recv  bool  // misCap 0 only: a receiver goroutine waits on the channel
	retry int64 // WithRetryInterval (0: default)
}

func newWorld(variant string, misCap int) *world { return newWorldThr(variant, misCap, thrNS) }

func newWorldThr(variant string, misCap int, thr int64) *world {
	return newWorldOpt(variant, misCap, wopt{thr: thr})
}

// misReceiver is the listener of an unbuffered MisfiredChan: parked in the receive, it records what it is handed and
// goes back to the receive. A nil job (sent by the harness itself) ends it.
func (w *world) misReceiver() {
	defer close(w.recvDone)
	for {
		m := <-w.misfired
		if m == nil {
			return
		}
		w.recvMu.Lock()
		w.recvGot = append(w.recvGot, m)
		w.recvMu.Unlock()
	}
}

// receiverParked reports whether the misReceiver goroutine is blocked in its channel receive (read off the runtime's
// goroutine dump: the goroutine is in state waiting with reason "chan receive", i.e. it is enqueued on the channel).
func receiverParked() bool {
	buf := make([]byte, 1<<16)
	for {
		n := runtime.Stack(buf, true)
		if n < len(buf) {
			buf = buf[:n]
			break
		}
		buf = make([]byte, 2*len(buf))
	}
	for _, g := range strings.Split(string(buf), "\n\n") {
		if strings.Contains(g, "main.(*world).misReceiver") {
			hdr := g
			if i := strings.IndexByte(g, '\n'); i >= 0 {
				hdr = g[:i]
			}
			return strings.Contains(hdr, "[chan receive")
		}
	}
	return false
}

// waitReceiver waits (up to 5 s) until the listener is parked in its receive again.
func (w *world) waitReceiver() bool {
	deadline := time.Now().Add(5 * time.Second)
	for i := 0; ; i++ {
		if receiverParked() {
			return true
		}
		if time.Now().After(deadline) {
			return false
		}
		if i < 20 {
			runtime.Gosched()
		} else {
			time.Sleep(50 * time.Microsecond)
		}
	}
}

func (w *world) takeReceived() []quartz.ScheduledJob {
	w.recvMu.Lock()
	defer w.recvMu.Unlock()
	g := w.recvGot
	w.recvGot = nil
	return g
}

// fillMark: what the harness itself puts into a buffered MisfiredChan to occupy slots (a listener that is behind).
var fillMark = quartz.VerifNewScheduledJob(quartz.NewJobDetail(noJob, quartz.NewJobKey("-fill-")), nil, 0)

func newWorldOpt(variant string, misCap int, wo wopt) *world {
	thr := wo.thr
	w := &world{variant: variant, locker: &recLocker{}, born: quartz.NowNano(), thr: thr, retry: wo.retry}
	var inner quartz.JobQueue = quartz.NewJobQueue()
	if variant[1] == 'c' {
		inner = &copyQueue{inner}
	}
	w.fq = &faultQueue{inner: inner}
	w.rq = &recQueue{inner: w.fq, locker: w.locker}
	n := 1
	if variant[1] == 'h' {
		n = 2
	}
	if misCap >= 0 {
		w.misfired = make(chan quartz.ScheduledJob, misCap)
	}
	for i := 0; i < n; i++ {
		opts := []quartz.SchedulerOpt{quartz.WithQueue(w.rq, w.locker), quartz.WithOutdatedThreshold(time.Duration(thr))}
		if w.misfired != nil {
			opts = append(opts, quartz.WithMisfiredChan(w.misfired))
		}
		if wo.retry > 0 {
			opts = append(opts, quartz.WithRetryInterval(time.Duration(wo.retry)))
		}
		s, err := quartz.NewStdScheduler(opts...)
		if err != nil {
			panic(err)
		}
		switch variant[0] {
		case 's':
			ctx, cancel := context.WithCancel(context.Background())
			w.cancel = append(w.cancel, cancel)
			s.Start(ctx)
		case 't':
			ctx, cancel := context.WithCancel(context.Background())
			s.Start(ctx)
			s.Stop()
			s.Wait(context.Background())
			cancel()
		}
		w.scheds = append(w.scheds, s)
	}
	if wo.recv && misCap == 0 {
		w.recv = true
		w.recvDone = make(chan struct{})
		go w.misReceiver()
	}
	return w
}

func (w *world) close() {
	defer func() { // after the schedulers are stopped the caller takes back what it wrote (sequences stay independent of each other)
		for _, jd := range w.written {
			jd.Options().Replace, jd.Options().Suspended, jd.Options().MaxRetries = false, false, 0
		}
	}()
	if w.recv {
		select {
		case w.misfired <- nil: // ends the listener
			<-w.recvDone
		case <-time.After(5 * time.Second):
		}
		w.recv = false
	}
	for i, s := range w.scheds {
		if w.variant[0] == 's' {
			s.Stop()
			s.Wait(context.Background())
			w.cancel[i]()
		}
	}
}

func (w *world) qkind() string {
	if w.variant[1] == 'c' {
		return "s" // compared with the sorted-list instance of the model
	}
	return "l"
}

func (w *world) addTrig(t *rtrig) *rtrig {
	t.id = len(w.trigs)
	t.calls = &w.calls
	w.trigs = append(w.trigs, t)
	return t
}

// op is one command: cmd is the text for the driver without the clock reading.
type op struct {
	pushFail   bool   // F: the next Push of the queue fails (the reschedule push of this fetch)
	removeFail bool   // A: the next Remove of the queue fails
	kind       byte   // 'A' api, 'F' fetch, 'X' foreign
	text       string // A: "S name group r s tid" ...; X: "push ..." ; F: ""
	sched      int
	run        func(s quartz.Scheduler) string // A / X: performs the call, returns the result class
	wait       time.Duration                   // F: the harness sleeps that long before the fetch (the clock passes an instant)
	misFill    int                             // F, buffered MisfiredChan: 1 = the channel is full before the fetch, 2 = exactly one slot is free
	late       func() op                       // the op is built when its turn comes (fire times placed relative to the clock of that moment)
	note       string                          // A: a fact about the arguments that the command does not show (goes into the replay)
	textFn     func() string                   // A: the command text is read off the arguments at the moment of the call (a re-used *JobDetail)
}

var noJob = &rjob{key: "-"}

func mkKey(name, group string) *quartz.JobKey {
	if name == "-nil-" {
		return nil
	}
	if name == "-empty-" {
		return quartz.NewJobKeyWithGroup("", group)
	}
	return quartz.NewJobKeyWithGroup(name, group)
}

func b01(b bool) string {
	if b {
		return "1"
	}
	return "0"
}

// opSchedule builds a ScheduleJob call with a fresh JobDetail.
func (w *world) opSchedule(name, group string, repl, susp bool, t *rtrig, jdNil bool) op {
	tid := "nil"
	if t != nil {
		tid = strconv.Itoa(t.id)
	}
	if jdNil {
		return op{kind: 'A', text: "S -jdnil- - 0 0 " + tid, run: func(s quartz.Scheduler) string {
			var tr quartz.Trigger
			if t != nil {
				tr = t
			}
			return errClassW(w, s.ScheduleJob(nil, tr))
		}}
	}
	return op{kind: 'A', text: fmt.Sprintf("S %s %s %s %s %s", name, group, b01(repl), b01(susp), tid),
		run: func(s quartz.Scheduler) string {
			o := quartz.NewDefaultJobDetailOptions()
			o.Replace, o.Suspended = repl, susp
			jd := quartz.NewJobDetailWithOptions(noJob, mkKey(name, group), o)
			if jd.JobKey() != nil && jd.JobKey().Name() != "" {
				w.details = append(w.details, jd)
			}
			var tr quartz.Trigger // a nil *rtrig must become a nil interface
			if t != nil {
				tr = t
			}
			return errClassW(w, s.ScheduleJob(jd, tr))
		}}
}

// opScheduleNJD: ScheduleJob of a detail built by quartz.NewJobDetail (default options, no options argument). write names what the
// caller writes through Options() AFTER construction: "" nothing, "repl" Replace = true, "susp" Suspended = true, "retr" MaxRetries = 3.
// The command carries what the caller asked of THIS detail: every other NewJobDetail-built detail has the default options.
func (w *world) opScheduleNJD(name, group string, t *rtrig, write string) op {
	return op{kind: 'A', text: fmt.Sprintf("S %s %s %s %s %d", name, group, b01(write == "repl"), b01(write == "susp"), t.id),
		note: "detail-built-by=NewJobDetail" + map[bool]string{true: ",then-Options()." + write + "-written-by-the-caller", false: ""}[write != ""],
		run: func(s quartz.Scheduler) string {
			jd := quartz.NewJobDetail(noJob, mkKey(name, group))
			switch write {
			case "repl":
				jd.Options().Replace = true
			case "susp":
				jd.Options().Suspended = true
			case "retr":
				jd.Options().MaxRetries = 3
			}
			if write != "" {
				w.written = append(w.written, jd)
			}
			w.details = append(w.details, jd)
			return errClassW(w, s.ScheduleJob(jd, t))
		}}
}

// pickDetail returns an earlier JobDetail object: of the given key (oldest or newest one) or, with name "", the idx-th of all.
func (w *world) pickDetail(name, group string, newest bool, idx int) *quartz.JobDetail {
	if name == "" {
		if len(w.details) == 0 {
			return nil
		}
		return w.details[idx%len(w.details)]
	}
	var found *quartz.JobDetail
	for _, d := range w.details {
		if d.JobKey().Name() == name && d.JobKey().Group() == group {
			found = d
			if !newest {
				break
			}
		}
	}
	return found
}

// opScheduleReuse: ScheduleJob with a *JobDetail object that an EARLIER ScheduleJob call was given (the same pointer; its
// options are what they are now -- PauseJob / ResumeJob write the Suspended option of a registered detail), with trigger t.
// The command is the ordinary one: the registry is keyed, so the expectation does not depend on the object's history.
func (w *world) opScheduleReuse(jd *quartz.JobDetail, t *rtrig) op {
	idx := 0
	for i, d := range w.details {
		if d == jd {
			idx = i
			break
		}
	}
	return op{kind: 'A', note: fmt.Sprintf("reused-detail=#%d(the-same-*JobDetail-object-as-in-the-%d.ScheduleJob-call-with-a-usable-key)", idx, idx+1),
		textFn: func() string {
			return fmt.Sprintf("S %s %s %s %s %d", jd.JobKey().Name(), jd.JobKey().Group(), b01(jd.Options().Replace), b01(jd.Options().Suspended), t.id)
		},
		run: func(s quartz.Scheduler) string { return errClassW(w, s.ScheduleJob(jd, t)) }}
}

func errClassW(w *world, err error) string {
	if !illegalStateConsistent(err) {
		w.badWrap++
	}
	return errClass(err)
}

func (w *world) opKey(c byte, name, group string) op {
	return op{kind: 'A', text: fmt.Sprintf("%c %s %s", c, name, group), run: func(s quartz.Scheduler) string {
		k := mkKey(name, group)
		switch c {
		case 'D':
			return errClassW(w, s.DeleteJob(k))
		case 'P':
			return errClassW(w, s.PauseJob(k))
		case 'R':
			return errClassW(w, s.ResumeJob(k))
		default:
			sj, err := s.GetScheduledJob(k)
			if err != nil {
				return errClassW(w, err)
			}
			return "J:" + entryStr(sj)
		}
	}}
}

func (w *world) opClear() op {
	return op{kind: 'A', text: "C", run: func(s quartz.Scheduler) string { return errClassW(w, s.Clear()) }}
}

func (w *world) opKeys() op {
	return op{kind: 'A', text: "K", run: func(s quartz.Scheduler) string {
		keys, err := s.GetJobKeys()
		if err != nil {
			return errClassW(w, err)
		}
		ks := make([]string, len(keys))
		for i, k := range keys {
			ks[i] = keyStr(k)
		}
		sortStrings(ks)
		return "K:" + strings.Join(ks, ",")
	}}
}

func sortStrings(a []string) {
	for i := 1; i < len(a); i++ {
		for j := i; j > 0 && a[j] < a[j-1]; j-- {
			a[j], a[j-1] = a[j-1], a[j]
		}
	}
}

// foreign changes go through the recording queue with the locker held, as another scheduler process would.
func (w *world) opForeignPush(name, group string, prio int64, susp, repl bool, t *rtrig) op {
	return op{kind: 'X', text: fmt.Sprintf("push %s %s %d %s %s %d", name, group, prio, b01(susp), b01(repl), t.id),
		run: func(quartz.Scheduler) string {
			o := quartz.NewDefaultJobDetailOptions()
			o.Replace, o.Suspended = repl, susp
			jd := quartz.NewJobDetailWithOptions(noJob, mkKey(name, group), o)
			w.locker.Lock()
			_ = w.rq.Push(quartz.VerifNewScheduledJob(jd, t, prio))
			w.locker.Unlock()
			return "ok"
		}}
}

func (w *world) opForeignRemove(name, group string) op {
	return op{kind: 'X', text: fmt.Sprintf("remove %s %s", name, group), run: func(quartz.Scheduler) string {
		w.locker.Lock()
		_, _ = w.rq.Remove(mkKey(name, group))
		w.locker.Unlock()
		return "ok"
	}}
}

func (w *world) opForeignClear() op {
	return op{kind: 'X', text: "clear", run: func(quartz.Scheduler) string {
		w.locker.Lock()
		_ = w.rq.Clear()
		w.locker.Unlock()
		return "ok"
	}}
}

// step performs one op and returns (driver command, observation without registry, extra facts for the oracles).
// Extra facts of a fetch: after=<clock reading taken after the step> [waited=<ns slept before it>] [recv=<listener state>].
func (w *world) step(o op) (string, string, string) {
	s := w.scheds[o.sched%len(w.scheds)]
	w.calls = w.calls[:0]
	extra := ""
	if o.textFn != nil {
		o.text = o.textFn()
	}
	recvReady := false
	if o.kind == 'F' {
		if o.wait > 0 {
			time.Sleep(o.wait)
			extra += fmt.Sprintf(" waited=%d", int64(o.wait))
		}
		if w.misfired != nil && cap(w.misfired) > 0 && o.misFill > 0 {
			free := 0
			if o.misFill == 2 {
				free = 1
			}
			for len(w.misfired) < cap(w.misfired)-free {
				w.misfired <- fillMark
			}
			extra += fmt.Sprintf(" misfired-chan=%d/%d", len(w.misfired), cap(w.misfired))
		}
		if w.recv {
			recvReady = w.waitReceiver()
			extra += " listener-parked-in-receive=" + b01(recvReady)
		}
	}
	tb := quartz.NowNano()
	var ta int64
	var obs string
	hint := "- -"
	switch o.kind {
	case 'A', 'X':
		if o.pushFail {
			w.fq.failNext.Store(true)
		}
		if o.removeFail {
			w.fq.failRemove.Store(true)
		}
		obs = o.run(s)
		w.fq.failNext.Store(false)
		w.fq.failRemove.Store(false)
	case 'F':
		// the interrupt token of a never-started scheduler is never consumed: Reset() shows only while
		// no token is pending yet
		tokBefore := quartz.VerifInterruptPending(s)
		mbefore := 0
		if w.misfired != nil {
			mbefore = len(w.misfired)
		}
		if o.pushFail {
			w.fq.failNext.Store(true)
		}
		done := make(chan struct{})
		var job quartz.ScheduledJob
		var valid bool
		var err error
		go func() { // fetch must not block (non-blocking misfire offer): watched from outside
			job, valid, err = quartz.VerifFetchAndReschedule(s)
			close(done)
		}()
		select {
		case <-done:
		case <-time.After(10 * time.Second):
			aborted = true // a blocked fetch holds the queue locker for ever: nothing more can be learnt from this process
			return "F 0 0 - -", "BLOCKED", ""
		}
		ta = quartz.NowNano() // the fetch has returned: whatever it classified, it did so at a clock reading <= ta
		w.fq.failNext.Store(false)
		r := "none"
		if err != nil {
			r = "!" + errClass(err)
		} else if job != nil {
			r = keyStr(job.JobDetail().JobKey()) + ":" + strconv.FormatInt(job.NextRunTime(), 10) + ":" + b01(valid)
			hint = job.JobDetail().JobKey().Name() + " " + job.JobDetail().JobKey().Group()
		}
		mis := "-"
		switch {
		case w.recv:
			// unbuffered with a listener that was parked in its receive before the fetch: a non-blocking offer is handed over
			// directly; the listener leaves the waiting state inside the send, so once it is parked again it has recorded it
			mis = "?"
			if recvReady && w.waitReceiver() {
				mis = "-"
				for _, m := range w.takeReceived() {
					mis = "M" + strconv.FormatInt(m.NextRunTime(), 10)
				}
			}
		case w.misfired == nil || cap(w.misfired) == 0:
			mis = "?" // no channel or unbuffered without a receiver: an offer cannot be seen
		default:
			full := mbefore == cap(w.misfired)
			// read back what is there (keeps room for the next one); the harness's own fillers are dropped
			for len(w.misfired) > 0 {
				if m := <-w.misfired; m != fillMark {
					mis = "M" + strconv.FormatInt(m.NextRunTime(), 10)
				}
			}
			if full && mis == "-" {
				mis = "?" // no room: the offer could not be taken (and must not block)
			}
		}
		tok := "r" + b01(quartz.VerifInterruptPending(s))
		if tokBefore {
			tok = "r?"
		}
		obs = r + " " + callsStr(w.calls) + " " + mis + " " + tok
	}
	if ta == 0 {
		ta = quartz.NowNano()
	}
	now := tb
	for _, c := range w.calls {
		if c.prev >= tb && c.prev <= ta {
			now = c.prev
			break
		}
	}
	switch o.kind {
	case 'A':
		c := "A"
		if o.pushFail {
			c = "AXP"
		} else if o.removeFail {
			c = "AXR"
		}
		return fmt.Sprintf("%s %d %s", c, now, o.text), obs + " " + callsStr(w.calls), o.note
	case 'X':
		return "X " + o.text, obs, ""
	default:
		c := "F"
		if o.pushFail {
			c = "FX"
		}
		return fmt.Sprintf("%s %d %d %s", c, now, w.thr, hint), obs, fmt.Sprintf("after=%d", ta) + extra
	}
}

// aborted is set when a fetch step blocked; the generators stop at the next sequence boundary.
var aborted bool

type emitter struct {
	w   *bufio.Writer
	seq int
}

func (e *emitter) comment(format string, a ...any) { fmt.Fprintf(e.w, "# "+format+"\n", a...) }

// ---------------------------------------------------------------------------
// exhaustive API sequences (one Q line per sequence)
// ---------------------------------------------------------------------------

type protoOp struct {
	mk func(w *world) op // builds the op in a fresh world (creating its trigger if it needs one)
}

func trigMaker(kind string) func(w *world) *rtrig {
	return func(w *world) *rtrig {
		switch kind {
		case "si":
			return w.addTrig(newSimple(0, futNS))
		case "ro":
			return w.addTrig(newOnce(0, futNS, false))
		case "rx":
			return w.addTrig(newOnce(0, futNS, true))
		case "mx": // a trigger whose next fire time is math.MaxInt64 ("never"), nil error
			return w.addTrig(newScript(0, nil, fire{math.MaxInt64, -1}))
		case "m1":
			return w.addTrig(newScript(0, nil, fire{math.MaxInt64 - 1, -1}))
		case "mn": // ... math.MinInt64 (the entry is outdated at once: never-started / stopped schedulers only)
			return w.addTrig(newScript(0, nil, fire{math.MinInt64, -1}))
		case "xm": // first MaxInt64, afterwards one less
			return w.addTrig(newScript(0, []fire{{math.MaxInt64, -1}}, fire{math.MaxInt64 - 1, -1}))
		default:
			return w.addTrig(newFail(0, 7))
		}
	}
}

// collide: distinct (name, group) pairs whose printed forms group::name coincide
var collide = [][2]string{{"db::backup", "eu"}, {"backup", "eu::db"}}

func alphabet(size string) []protoOp {
	var out []protoOp
	keys := [][2]string{{"a", "default"}, {"b", "default"}, {"a", "g"}, {"b", "g"}, collide[0], collide[1]}
	trigs := []string{"si", "ro", "rx", "fl"}
	opts := [][2]bool{{false, false}, {true, false}, {false, true}, {true, true}}
	if size == "full4" {
		keys = keys[:4]
	}
	if size == "collide" {
		keys = collide
		trigs = []string{"si", "rx"}
		opts = opts[:3]
	}
	if size == "small" {
		keys = [][2]string{{"a", "default"}, {"a", "g"}}
		trigs = []string{"si", "rx"}
		opts = opts[:3]
	}
	if size == "njd" {
		// details built by NewJobDetail; on some the caller writes Replace / Suspended / MaxRetries through Options() afterwards; then
		// OTHER NewJobDetail-built details (default options) are scheduled under registered keys
		for _, k := range [][2]string{{"a", "default"}, {"a", "g"}} {
			for _, wr := range []string{"", "repl", "susp", "retr"} {
				k, wr := k, wr
				if k[1] == "g" && (wr == "retr" || wr == "repl") {
					continue
				}
				out = append(out, protoOp{func(w *world) op { return w.opScheduleNJD(k[0], k[1], trigMaker("si")(w), wr) }})
			}
		}
		for _, c := range []byte{'D', 'P', 'R'} {
			c := c
			out = append(out, protoOp{func(w *world) op { return w.opKey(c, "a", "default") }})
		}
		out = append(out, protoOp{func(w *world) op { return w.opClear() }})
		return out
	}
	if size == "reuse" {
		// one key in full: fresh details (plain / Replace / Suspended), the OLDEST and the NEWEST earlier *JobDetail object of the key
		// handed to ScheduleJob again (with a new trigger), delete / pause / resume; a second key to move other entries; clear
		k := [2]string{"a", "default"}
		for _, o := range opts[:3] {
			o := o
			out = append(out, protoOp{func(w *world) op { return w.opSchedule(k[0], k[1], o[0], o[1], trigMaker("si")(w), false) }})
		}
		for _, newest := range []bool{false, true} {
			newest := newest
			out = append(out, protoOp{func(w *world) op {
				t := trigMaker("si")(w)
				if jd := w.pickDetail(k[0], k[1], newest, 0); jd != nil {
					return w.opScheduleReuse(jd, t)
				}
				return w.opSchedule(k[0], k[1], false, false, t, false)
			}})
		}
		for _, c := range []byte{'D', 'P', 'R'} {
			c := c
			out = append(out, protoOp{func(w *world) op { return w.opKey(c, k[0], k[1]) }})
		}
		out = append(out,
			protoOp{func(w *world) op { return w.opSchedule("a", "g", false, false, trigMaker("si")(w), false) }},
			protoOp{func(w *world) op { return w.opKey('D', "a", "g") }},
			protoOp{func(w *world) op { return w.opClear() }})
		return out
	}
	if size == "extreme" || size == "extreme-started" { // fire times at the ends of int64 (scripted triggers)
		keys = [][2]string{{"a", "default"}, {"a", "g"}}
		trigs = []string{"mx", "m1", "mn", "xm"}
		if size == "extreme-started" { // a started loop must not find anything due
			trigs = []string{"mx", "m1", "xm"}
		}
		opts = opts[:3]
	}
	for _, k := range keys {
		for _, o := range opts {
			for _, t := range trigs {
				k, o, t := k, o, t
				out = append(out, protoOp{func(w *world) op { return w.opSchedule(k[0], k[1], o[0], o[1], trigMaker(t)(w), false) }})
			}
		}
		for _, c := range []byte{'D', 'P', 'R'} {
			k, c := k, c
			out = append(out, protoOp{func(w *world) op { return w.opKey(c, k[0], k[1]) }})
		}
		if size != "small" {
			k := k
			out = append(out, protoOp{func(w *world) op { return w.opKey('G', k[0], k[1]) }})
		}
	}
	out = append(out, protoOp{func(w *world) op { return w.opClear() }})
	out = append(out, protoOp{func(w *world) op { return w.opSchedule("a", "default", true, false, nil, false) }}) // nil trigger
	if size == "full" || size == "full4" {
		out = append(out,
			protoOp{func(w *world) op { return w.opKeys() }},
			protoOp{func(w *world) op { return w.opSchedule("", "", false, false, trigMaker("si")(w), true) }},              // nil job detail
			protoOp{func(w *world) op { return w.opSchedule("-nil-", "default", false, false, trigMaker("si")(w), false) }}, // nil key
			protoOp{func(w *world) op { return w.opSchedule("-empty-", "g", false, false, trigMaker("si")(w), false) }},     // empty name
			protoOp{func(w *world) op { return w.opKey('D', "-nil-", "default") }},
			protoOp{func(w *world) op { return w.opKey('P', "-nil-", "default") }},
			protoOp{func(w *world) op { return w.opKey('R', "-nil-", "default") }},
			protoOp{func(w *world) op { return w.opKey('G', "-nil-", "default") }},
		)
	}
	return out
}

type stats struct {
	sequences, calls, lockCalls, lockViolations, badWrap, stalled, blocked int
	firstViolation                                                         string
}

func (st *stats) absorb(w *world) {
	st.lockCalls += int(w.rq.calls.Load())
	v := int(w.rq.violations.Load())
	if v > 0 && st.firstViolation == "" {
		st.firstViolation, _ = w.rq.first.Load().(string)
	}
	st.lockViolations += v
	st.badWrap += w.badWrap
}

func runExhaustive(e *emitter, st *stats, size string, depth int, variants []string, only int) {
	alpha := alphabet(size)
	idx := make([]int, depth)
	vi := 0
	for {
		variant := variants[vi%len(variants)]
		vi++
		if only < 0 || only == e.seq {
			w := newWorld(variant, 4)
			var cmds, obss []string
			notes := ""
			for _, i := range idx {
				ntr := len(w.trigs)
				o := alpha[i].mk(w)
				o.sched = len(cmds)
				for _, t := range w.trigs[ntr:] {
					cmds = append(cmds, fmt.Sprintf("T %d %s", t.id, t.spec))
					obss = append(obss, "ok")
				}
				c, ob, ex := w.step(o)
				if ex != "" {
					notes += fmt.Sprintf(" [command %d: %s]", len(cmds)+1, ex)
				}
				cmds = append(cmds, c)
				obss = append(obss, ob)
				st.calls++
			}
			reg := registry(w.scheds[0])
			w.close()
			st.absorb(w)
			fmt.Fprintf(e.w, "Q %s ;; %s\t%s | %s\t#%d %s\n", w.qkind(), strings.Join(cmds, " ;; "), strings.Join(obss, " ;; "), reg, e.seq, variant+notes)
		}
		e.seq++
		st.sequences++
		// next index vector
		p := depth - 1
		for p >= 0 {
			idx[p]++
			if idx[p] < len(alpha) {
				break
			}
			idx[p] = 0
			p--
		}
		if p < 0 {
			return
		}
	}
}

// ---------------------------------------------------------------------------
// random sequences: API only (any life-cycle variant) or API + fetch + foreign (never-started schedulers)
// ---------------------------------------------------------------------------

// nearMargins: how far ahead of the clock a "not quite due" fire time is placed (ns): 1 us .. 900 us and 1 .. 5 ms.
var nearMargins = []int64{1_000, 5_000, 20_000, 100_000, 300_000, 500_000, 900_000, 1_000_000, 2_000_000, 5_000_000}

func (w *world) randomOp(r *rand.Rand, withFetch bool, base int64) op {
	names := []string{"a", "b"}
	groups := []string{"default", "g"}
	name, group := names[r.Intn(2)], groups[r.Intn(2)]
	if r.Intn(5) == 0 { // two keys that differ as pairs but print alike (db::backup in eu / backup in eu::db)
		kk := collide[r.Intn(2)]
		name, group = kk[0], kk[1]
	}
	pick := r.Intn(100)
	mkTrig := func() *rtrig {
		if !withFetch {
			return trigMaker([]string{"si", "si", "ro", "rx", "fl", "si", "si", "ro", "rx", "fl", "mx", "m1", "xm"}[r.Intn(13)])(w)
		}
		errKind := func() fire { // the ways a trigger can fail: the bare sentinel, the sentinel wrapped with %w, unrelated errors
			return fire{0, []int{0, wrappedExpired, 1, 2}[r.Intn(4)]}
		}
		switch r.Intn(13) {
		case 10:
			// fire times a little ahead of the clock of this moment: 1 us .. 900 us and 1 .. 5 ms, each after the one before
			n := 1 + r.Intn(4)
			sc := make([]fire, n)
			at := quartz.NowNano()
			for i := range sc {
				at += nearMargins[r.Intn(len(nearMargins))] + int64(r.Intn(1000))
				sc[i] = fire{at, -1}
			}
			return w.addTrig(newScript(0, sc, fire{base + futNS, -1}))
		case 11:
			// due fire times, then the trigger fails (at its 2nd, 3rd, ... call) in one of the ways
			n := 1 + r.Intn(3)
			sc := make([]fire, n+1)
			for i := 0; i < n; i++ {
				sc[i] = fire{base + dueNS + int64(i)*int64(time.Millisecond) + int64(r.Intn(1000))*1000, -1}
			}
			sc[n] = errKind()
			return w.addTrig(newScript(0, sc, errKind()))
		case 12:
			// "never": the end of the int64 range as a fire time
			return w.addTrig(newScript(0, []fire{{base + dueNS, -1}}, fire{math.MaxInt64 - int64(r.Intn(2)), -1}))
		case 0:
			return w.addTrig(newOnce(0, dueNS, false)) // fires once, on time
		case 1:
			return w.addTrig(newOnce(0, lateNS, false)) // its single fire time is already outdated
		case 2:
			return w.addTrig(newOnce(0, futNS, true))
		case 3:
			return w.addTrig(newFail(0, 1+r.Intn(3)))
		case 4:
			return w.addTrig(newSimple(0, dueNS)) // walks back in time: due, due, due, late, re-based ...
		case 5:
			return w.addTrig(newSimple(0, futNS))
		case 6:
			return w.addTrig(newSimple(0, lateNS))
		default:
			// scripted fire times placed by margin around the clock of the scenario start
			n := 1 + r.Intn(5)
			sc := make([]fire, n)
			for i := range sc {
				off := []int64{dueNS, dueNS, lateNS, futNS, dueNS + int64(i+1)*int64(time.Millisecond)}[r.Intn(5)]
				sc[i] = fire{base + off + int64(r.Intn(1000))*1000, -1}
				if r.Intn(12) == 0 {
					sc[i] = errKind()
				}
			}
			d := fire{base + futNS, -1}
			if r.Intn(3) == 0 {
				d = fire{0, 0}
			}
			return w.addTrig(newScript(0, sc, d))
		}
	}
	var o op
	switch {
	case withFetch && pick < 3:
		o = op{kind: 'F', pushFail: true}
	case withFetch && pick < 38:
		o = op{kind: 'F', misFill: []int{0, 0, 1, 2}[r.Intn(4)]}
		switch r.Intn(40) {
		case 0: // the clock passes the instant "now + RetryInterval" of an earlier step
			if w.retry > 0 {
				o.wait = time.Duration(w.retry) + 200*time.Microsecond
			}
		case 1:
			o.wait = 300 * time.Microsecond
		}
	case withFetch && pick < 44:
		if len(w.trigs) == 0 || r.Intn(2) == 0 {
			mkTrig()
		}
		t := w.trigs[r.Intn(len(w.trigs))]
		off := []int64{dueNS, lateNS, futNS}[r.Intn(3)]
		prio := base + off + int64(r.Intn(1000))*1000
		if r.Intn(4) == 0 { // a little ahead of the clock of this moment
			prio = quartz.NowNano() + nearMargins[r.Intn(len(nearMargins))] + int64(r.Intn(1000))
		}
		o = w.opForeignPush(name, group, prio, r.Intn(5) == 0, r.Intn(2) == 0, t)
	case withFetch && pick < 46:
		o = w.opForeignRemove(name, group)
	case withFetch && pick < 47:
		o = w.opForeignClear()
	case pick < 70:
		var t *rtrig
		if len(w.trigs) > 0 && r.Intn(6) == 0 {
			t = w.trigs[r.Intn(len(w.trigs))] // a trigger shared with another job / an earlier call
		} else if r.Intn(25) != 0 {
			t = mkTrig()
		}
		switch r.Intn(30) {
		case 0:
			o = w.opSchedule("", "", false, false, t, true)
		case 1:
			o = w.opSchedule("-nil-", group, false, false, t, false)
		case 2:
			o = w.opSchedule("-empty-", group, false, false, t, false)
		default:
			o = w.opSchedule(name, group, r.Intn(3) == 0, r.Intn(4) == 0, t, false)
			if t != nil && r.Intn(6) == 0 { // a detail built by NewJobDetail, sometimes written through Options() afterwards
				o = w.opScheduleNJD(name, group, t, []string{"", "", "repl", "susp", "retr"}[r.Intn(5)])
			} else if t != nil && len(w.details) > 0 && r.Intn(5) == 0 { // an earlier *JobDetail object again: of this key, or any
				jd := w.pickDetail(name, group, r.Intn(2) == 0, 0)
				if jd == nil || r.Intn(3) == 0 {
					jd = w.pickDetail("", "", false, r.Intn(1<<20))
				}
				o = w.opScheduleReuse(jd, t)
			}
		}
	case pick < 77:
		o = w.opKey('D', name, group)
	case pick < 86:
		o = w.opKey('P', name, group)
	case pick < 95:
		o = w.opKey('R', name, group)
	case pick < 97:
		o = w.opKey('G', name, group)
	case pick < 98:
		o = w.opKeys()
	case pick < 99:
		o = w.opKey([]byte{'D', 'P', 'R', 'G'}[r.Intn(4)], "-nil-", group)
	default:
		o = w.opClear()
	}
	o.sched = r.Intn(2)
	if (withFetch || w.apiFaults) && o.kind == 'A' { // a transient failure of the queue inside the call
		switch r.Intn(14) {
		case 0:
			o.pushFail = true
		case 1:
			o.removeFail = true
		}
	}
	return o
}

func runRandom(e *emitter, st *stats, r *rand.Rand, nseq, depth int, withFetch bool, variants []string, only int) {
	for n := 0; n < nseq && !aborted; n++ {
		seed := r.Int63()
		if only >= 0 && only != e.seq {
			e.seq++
			continue
		}
		for attempt := 0; ; attempt++ {
			rr := rand.New(rand.NewSource(seed))
			variant := variants[n%len(variants)]
			// MisfiredChan: none, unbuffered without / with a listener parked in the receive, capacity 1, 2, 64
			mi := rr.Intn(6)
			misCap := []int{-1, 0, 0, 1, 2, 64}[mi]
			wo := wopt{thr: thrNS, recv: mi == 2}
			if !withFetch {
				misCap, wo.recv = 4, false
			}
			if withFetch {
				switch rr.Intn(8) { // the boundary settings of OutdatedThreshold
				case 0:
					wo.thr = 0
				case 1:
					wo.thr = int64(1<<63 - 1)
				}
				if rr.Intn(2) == 0 { // a short RetryInterval: an instant "now + RetryInterval" is reached within the sequence
					wo.retry = int64(time.Millisecond)
				}
			}
			thr := wo.thr
			w := newWorldOpt(variant, misCap, wo)
			if !withFetch && variant[0] != 's' && rr.Intn(2) == 0 { // (a started loop pushes too: the fault must hit the API call)
				w.apiFaults = true
			}
			var lines []string
			lines = append(lines, fmt.Sprintf("# seq %d variant %s miscap %d%s thr %d retry %d", e.seq, variant, misCap,
				map[bool]string{true: " listener", false: ""}[wo.recv], thr, wo.retry)+map[bool]string{true: " api-faults", false: ""}[w.apiFaults], "reset "+w.qkind()+"\tok")
			stalled := false
			for i := 0; i < depth; i++ {
				ntr := len(w.trigs)
				o := w.randomOp(rr, withFetch, w.born)
				for _, t := range w.trigs[ntr:] {
					lines = append(lines, fmt.Sprintf("T %d %s\tok", t.id, t.spec))
				}
				c, ob, ex := w.step(o)
				st.calls++
				if ob == "BLOCKED" {
					st.blocked++
					lines = append(lines, c+"\t"+ob)
					break
				}
				if ex != "" {
					ex = "\t" + ex
				}
				lines = append(lines, c+"\t"+ob+" | "+registry(w.scheds[0])+ex)
				if withFetch && quartz.NowNano()-w.born > stallNS {
					stalled = true
					break
				}
			}
			if aborted {
				for _, l := range lines {
					fmt.Fprintln(e.w, l)
				}
				st.sequences++
				return
			}
			w.close()
			st.absorb(w)
			if stalled && attempt < 3 {
				st.stalled++
				continue
			}
			if stalled {
				lines = lines[:1]
			}
			for _, l := range lines {
				fmt.Fprintln(e.w, l)
			}
			break
		}
		e.seq++
		st.sequences++
	}
}

// ---------------------------------------------------------------------------
// fixed scenarios aimed at the classification boundaries and at the pause/delete window
// ---------------------------------------------------------------------------

func runDirected(e *emitter, st *stats, only int, onlyPrefix string) {
	type sc struct {
		name    string
		run     func(w *world) []op
		variant string // "" = by name (see below)
		misCap  int
		wo      wopt
	}
	f := op{kind: 'F'}
	var scenarios []sc
	for _, qv := range []string{"nd", "nc", "nh"} {
		for _, mc := range []int{-1, 0, 1, 8, -2} {
			qv, mc := qv, mc
			name := fmt.Sprintf("classify %s miscap %d", qv, mc)
			var wo wopt
			if mc == -2 { // unbuffered, with a listener parked in the receive
				mc, wo.recv = 0, true
				name = fmt.Sprintf("classify %s miscap 0 listener", qv)
			}
			scenarios = append(scenarios, sc{name: name, misCap: mc, wo: wo, run: func(w *world) []op {
				b := w.born
				late := w.addTrig(newScript(0, []fire{{b + lateNS, -1}, {b + dueNS, -1}, {b + futNS, -1}}, fire{0, 0}))
				due := w.addTrig(newScript(0, []fire{{b + dueNS - 1000, -1}, {b + dueNS + 1000, -1}, {0, 0}}, fire{0, 0}))
				fut := w.addTrig(newSimple(0, futNS))
				once := w.addTrig(newOnce(0, dueNS-5000, false))
				return []op{
					w.opSchedule("a", "default", false, false, late, false),
					w.opSchedule("b", "default", false, false, due, false),
					w.opSchedule("a", "g", false, false, fut, false),
					w.opSchedule("b", "g", false, true, once, false), // suspended: parked without a trigger call
					f, f, f, f, f, f, f,
					w.opKey('R', "b", "g"), f, f, f,
					w.opKey('P', "a", "g"), f, w.opKey('D', "a", "g"), f, f,
					w.opClear(), f,
				}
			}})
		}
	}
	scenarios = append(scenarios, sc{name: "pause-between-fetches", run: func(w *world) []op {
		t := w.addTrig(newSimple(0, dueNS))
		return []op{w.opSchedule("a", "default", false, false, t, false), f, w.opKey('P', "a", "default"), f, f,
			w.opKey('R', "a", "default"), f, f, f, f, f, w.opKey('D', "a", "default"), f}
	}})
	scenarios = append(scenarios, sc{name: "foreign-and-shared", run: func(w *world) []op {
		t := w.addTrig(newSimple(0, dueNS))
		u := w.addTrig(newSimple(0, futNS))
		b := w.born
		f1 := op{kind: 'F', sched: 1}
		return []op{w.opForeignPush("a", "g", b+dueNS, false, false, t), f, f1,
			w.opForeignPush("a", "g", b+lateNS, false, true, u), f1, w.opForeignPush("b", "g", b+futNS, true, false, u), f, f1,
			w.opForeignRemove("a", "g"), f, f1, w.opForeignClear(), f}
	}})
	for _, qv := range []string{"nd", "nc", "nh"} {
		qv := qv
		scenarios = append(scenarios, sc{name: "pushfail " + qv, run: func(w *world) []op {
			b := w.born
			fx := op{kind: 'F', pushFail: true}
			t := w.addTrig(newScript(0, []fire{{b + dueNS, -1}, {b + dueNS + 1000, -1}, {b + dueNS + 2000, -1}, {b + futNS, -1}}, fire{0, 0}))
			u := w.addTrig(newSimple(0, futNS))
			l := w.addTrig(newScript(0, []fire{{b + lateNS, -1}, {b + dueNS + 5000, -1}, {b + futNS, -1}}, fire{0, 0}))
			return []op{
				w.opSchedule("a", "default", false, false, t, false), f, fx, f, f, // due: fetched, then the reschedule push fails
				w.opSchedule("b", "g", false, false, u, false), fx, f, // not due: the push-back fails
				w.opSchedule("a", "g", false, false, l, false), fx, f, // late: the re-base push fails
				w.opSchedule("a", "default", false, true, t, false), fx, f, // suspended
			}
		}})
	}
	for _, qv := range []string{"nd", "nc", "nh", "td"} {
		qv := qv
		if onlyPrefix == "" && (qv == "nh" || qv == "td") {
			continue // (the fetch profiles keep their two)
		}
		scenarios = append(scenarios, sc{name: "apifault " + qv, run: func(w *world) []op {
			t := w.addTrig(newSimple(0, futNS))
			u := w.addTrig(newSimple(0, futNS))
			rf := func(o op) op { o.removeFail = true; return o }
			pf := func(o op) op { o.pushFail = true; return o }
			return []op{
				w.opSchedule("a", "default", false, false, t, false),
				rf(w.opKey('P', "a", "default")), w.opKey('G', "a", "default"), // Remove fails inside PauseJob: error, still active
				w.opKey('P', "a", "default"),
				rf(w.opKey('R', "a", "default")), w.opKey('G', "a", "default"), // ... inside ResumeJob: error, still paused
				rf(w.opKey('D', "a", "default")), w.opKey('G', "a", "default"),
				w.opKey('R', "a", "default"),
				pf(w.opSchedule("b", "g", false, false, u, false)), w.opKeys(),
				w.opSchedule("b", "g", false, false, u, false),
				pf(w.opKey('P', "b", "g")), w.opKeys(), // Push fails inside PauseJob: error (the entry is lost)
				w.opSchedule("b", "g", false, true, u, false),
				pf(w.opKey('R', "b", "g")), w.opKeys(),
				// ScheduleJob with Replace over a registered key while the queue fails: the call hands the error back and the
				// job that was registered stays (an error leaves the registry unchanged)
				w.opSchedule("c", "g", false, false, t, false),
				pf(w.opSchedule("c", "g", true, false, u, false)), w.opKey('G', "c", "g"), w.opKeys(),
				rf(w.opSchedule("c", "g", true, false, u, false)), w.opKey('G', "c", "g"),
				w.opKey('P', "c", "g"),
				pf(w.opSchedule("c", "g", true, true, t, false)), w.opKey('G', "c", "g"),
				pf(w.opSchedule("c", "g", false, false, t, false)), w.opKey('G', "c", "g"), w.opKeys(),
			}
		}})
	}
	// MisfiredChan of every shape: unbuffered with a listener parked in the receive, capacity 1, 2, 8; empty, full (no room: the
	// offer cannot be taken and must not block), exactly one free slot. Four outdated jobs, one fetch each.
	for _, mc := range []int{-2, 1, 2, 8} {
		mc := mc
		name := fmt.Sprintf("misfired-chan cap %d", mc)
		var wo wopt
		if mc == -2 {
			mc, wo.recv = 0, true
			name = "misfired-chan cap 0 listener"
		}
		for _, qv := range []string{"nd", "nh"} {
			scenarios = append(scenarios, sc{name: name + " " + qv, variant: qv, misCap: mc, wo: wo, run: func(w *world) []op {
				b := w.born
				var ops []op
				for i, k := range [][2]string{{"a", "default"}, {"b", "default"}, {"a", "g"}, {"b", "g"}} {
					t := w.addTrig(newScript(0, []fire{{b + lateNS + int64(i)*1000, -1}, {b + futNS, -1}}, fire{0, 0}))
					ops = append(ops, w.opSchedule(k[0], k[1], false, false, t, false))
				}
				return append(ops, op{kind: 'F'}, op{kind: 'F', misFill: 1, sched: 1}, op{kind: 'F', misFill: 2}, op{kind: 'F', sched: 1}, f)
			}})
		}
	}
	// a trigger that fails at its 2nd or 3rd call -- with the bare ErrTriggerExpired, with the sentinel wrapped (%w), with an unrelated
	// error -- when its last fire time is dequeued on time or outdated: the job leaves the registry; nothing is executed later, also
	// not after the clock has passed now + RetryInterval (2 ms here, once the default 100 ms)
	for _, kind := range []int{0, wrappedExpired, 1} {
		for _, ncall := range []int{2, 3} {
			for _, lastLate := range []bool{false, true} {
				kind, ncall, lastLate := kind, ncall, lastLate
				retry := int64(2 * time.Millisecond)
				name := fmt.Sprintf("trigger-error %s at call %d last-late %v retry %d", fire{0, kind}.item(), ncall, lastLate, retry)
				if kind == 1 && ncall == 2 && !lastLate {
					retry = 0
					name = fmt.Sprintf("trigger-error %s at call %d last-late %v retry default", fire{0, kind}.item(), ncall, lastLate)
				}
				scenarios = append(scenarios, sc{name: name, variant: "nd", misCap: 8, wo: wopt{retry: retry}, run: func(w *world) []op {
					b := w.born
					var script []fire
					for i := 0; i < ncall-1; i++ {
						script = append(script, fire{b + dueNS + int64(i)*int64(time.Millisecond), -1})
					}
					if lastLate {
						script[len(script)-1] = fire{b + lateNS, -1}
					}
					script = append(script, fire{0, kind})
					t := w.addTrig(newScript(0, script, fire{0, kind}))
					u := w.addTrig(newSimple(0, futNS))
					pause := time.Duration(retry) + time.Millisecond
					if retry == 0 {
						pause = 102 * time.Millisecond
					}
					ops := []op{w.opSchedule("a", "default", false, false, t, false), w.opSchedule("b", "g", false, false, u, false)}
					for i := 0; i < ncall-1; i++ {
						ops = append(ops, f)
					}
					return append(ops, f, op{kind: 'F', wait: pause}, f, w.opKey('G', "a", "default"), w.opKeys())
				}})
			}
		}
	}
	// fire times a little ahead of the clock (1 us .. 5 ms), placed when their turn comes, each followed at once by a fetch: a fetch
	// that ends before the fire time must not hand the job out
	for _, qv := range []string{"nd", "nc", "nh"} {
		qv := qv
		scenarios = append(scenarios, sc{name: "near-future " + qv, variant: qv, misCap: 8, run: func(w *world) []op {
			u := w.addTrig(newSimple(0, futNS))
			var ops []op
			for i, m := range nearMargins {
				i, m := i, m
				if i%2 == 0 {
					ops = append(ops, op{late: func() op { return w.opForeignPush("a", "g", quartz.NowNano()+m, false, true, u) }})
				} else {
					ops = append(ops, op{late: func() op {
						t := w.addTrig(newScript(0, []fire{{quartz.NowNano() + m, -1}}, fire{w.born + futNS, -1}))
						return w.opSchedule("a", "g", true, false, t, false)
					}})
				}
				ops = append(ops, op{kind: 'F', sched: i})
			}
			return ops
		}})
	}
	// a *JobDetail object that goes through Schedule / Pause / Delete (or Clear) and is handed to ScheduleJob again with ANOTHER
	// trigger, then ResumeJob: the fire time after the resume is computed at the moment of resumption by the job's current trigger
	// (nothing of the object's earlier life may survive); then the clock passes the fire time that was pending at the pause
	for _, qv := range []string{"nd", "nc", "nh"} {
		for _, how := range []byte{'D', 'C'} {
			qv, how := qv, how
			scenarios = append(scenarios, sc{name: fmt.Sprintf("reused-detail %c %s", how, qv), variant: qv, misCap: 8, run: func(w *world) []op {
				a := w.addTrig(newSimple(0, int64(4*time.Millisecond))) // pending fire time at the pause: 4 ms ahead
				b := w.addTrig(newSimple(0, futNS))
				u := w.addTrig(newSimple(0, futNS))
				gone := w.opKey('D', "a", "default")
				if how == 'C' {
					gone = w.opClear()
				}
				return []op{
					w.opSchedule("b", "g", false, false, u, false),
					w.opSchedule("a", "default", false, false, a, false),
					w.opKey('P', "a", "default"), gone,
					{late: func() op { return w.opScheduleReuse(w.pickDetail("a", "default", false, 0), b) }},
					w.opKey('R', "a", "default"), w.opKey('G', "a", "default"),
					{kind: 'F'}, {kind: 'F', wait: 6 * time.Millisecond}, {kind: 'F', sched: 1},
					// ... and the same object once more, active this time, over itself with Replace switched on by the caller? no: a fresh one
					w.opKey('P', "a", "default"),
					{late: func() op { return w.opScheduleReuse(w.pickDetail("a", "default", false, 0), a) }}, // registered and paused: ErrJobAlreadyExists
					w.opKey('R', "a", "default"), {kind: 'F'},
				}
			}})
		}
	}
	// jobs added (or replaced) in the PAUSED state with a stateful trigger -- RunOnceTrigger, a 3-shot script --: nothing is asked of the
	// trigger while the job is paused, so after ResumeJob the run-once job still fires once and the 3-shot job three times
	for _, qv := range []string{"nd", "nc", "nh"} {
		qv := qv
		scenarios = append(scenarios, sc{name: "suspended-stateful " + qv, variant: qv, misCap: 8, run: func(w *world) []op {
			bb := w.born
			once := w.addTrig(newOnce(0, dueNS, false))
			three := w.addTrig(newScript(0, []fire{{bb + dueNS + 1000, -1}, {bb + dueNS + 2000, -1}, {bb + dueNS + 3000, -1}}, fire{0, 0}))
			u := w.addTrig(newSimple(0, futNS))
			once2 := w.addTrig(newOnce(0, dueNS, false))
			return []op{
				w.opSchedule("a", "default", false, true, once, false),
				w.opSchedule("a", "g", false, true, three, false),
				w.opSchedule("b", "g", false, false, u, false),
				w.opSchedule("b", "g", true, true, once2, false), // replaced by a paused job
				f, f,
				w.opKey('R', "a", "default"), f, f,
				w.opKey('R', "a", "g"), f, f, f, f, f,
				w.opKey('R', "b", "g"), f, f, w.opKeys(),
			}
		}})
	}
	for i, s := range scenarios {
		if aborted {
			return
		}
		if !strings.HasPrefix(s.name, onlyPrefix) {
			continue
		}
		if only >= 0 && only != e.seq {
			e.seq++
			continue
		}
		variant := "nd"
		misCap := 8
		if strings.HasPrefix(s.name, "apifault") {
			fmt.Sscanf(s.name, "apifault %s", &variant)
		} else if strings.HasPrefix(s.name, "pushfail") {
			fmt.Sscanf(s.name, "pushfail %s", &variant)
		} else if strings.HasPrefix(s.name, "classify") {
			fmt.Sscanf(s.name, "classify %s", &variant)
			misCap = s.misCap
		} else if s.name == "foreign-and-shared" {
			variant = "nh"
		}
		if s.variant != "" {
			variant, misCap = s.variant, s.misCap
		}
		_ = i
		wo := s.wo
		wo.thr = thrNS
		w := newWorldOpt(variant, misCap, wo)
		fmt.Fprintf(e.w, "# seq %d variant %s miscap %d directed %s\n", e.seq, variant, misCap, s.name)
		fmt.Fprintf(e.w, "reset %s\tok\n", w.qkind())
		ops := s.run(w)
		for _, t := range w.trigs {
			fmt.Fprintf(e.w, "T %d %s\tok\n", t.id, t.spec)
		}
		for _, o := range ops {
			if o.late != nil { // built now: fire times relative to the clock of this moment
				ntr := len(w.trigs)
				sch := o.sched
				o = o.late()
				o.sched = sch
				for _, t := range w.trigs[ntr:] {
					fmt.Fprintf(e.w, "T %d %s\tok\n", t.id, t.spec)
				}
			}
			c, ob, ex := w.step(o)
			st.calls++
			if ob == "BLOCKED" {
				st.blocked++
				fmt.Fprintf(e.w, "%s\t%s\n", c, ob)
				break
			}
			if ex != "" {
				ex = "\t" + ex
			}
			fmt.Fprintf(e.w, "%s\t%s | %s%s\n", c, ob, registry(w.scheds[0]), ex)
		}
		if aborted {
			st.sequences++
			return
		}
		w.close()
		st.absorb(w)
		e.seq++
		st.sequences++
	}
}

// steps <profile> <seed> <out> [only-seq]
//
//	profiles: api-quick api-thorough (C09), fetch-quick fetch-thorough (C03/C04/C08)
func cmdSteps(args []string) {
	if len(args) < 3 {
		fmt.Fprintln(os.Stderr, "usage: schedh steps <profile> <seed> <outfile> [only-seq]")
		os.Exit(2)
	}
	seed, _ := strconv.ParseInt(args[1], 10, 64)
	only := -1
	if len(args) > 3 {
		only, _ = strconv.Atoi(args[3])
	}
	out, err := os.Create(args[2])
	if err != nil {
		panic(err)
	}
	defer out.Close()
	e := &emitter{w: bufio.NewWriterSize(out, 1<<20)}
	defer e.w.Flush()
	st := &stats{}
	r := rand.New(rand.NewSource(seed))
	quiet := []string{"nd", "nc", "nh", "td"}
	all := []string{"nd", "nc", "nh", "sd", "sc", "sh", "td", "tc", "th"}
	var wg sync.WaitGroup
	switch args[0] {
	case "api-quick":
		runDirected(e, st, only, "apifault")
		runExhaustive(e, st, "small", 4, quiet, only)
		runExhaustive(e, st, "small", 3, []string{"sd", "sh", "sc"}, only)
		runExhaustive(e, st, "collide", 3, quiet, only)
		runExhaustive(e, st, "reuse", 4, quiet, only)
		runExhaustive(e, st, "reuse", 3, []string{"sd", "sh", "sc"}, only)
		runExhaustive(e, st, "njd", 4, quiet, only)
		runExhaustive(e, st, "njd", 3, []string{"sd", "sh", "sc"}, only)
		runExhaustive(e, st, "extreme", 3, quiet, only)
		runExhaustive(e, st, "extreme-started", 2, []string{"sd", "sh", "sc"}, only)
		runExhaustive(e, st, "full", 2, all, only)
		runExhaustive(e, st, "full", 1, all, only)
		runRandom(e, st, r, 600, 60, false, all, only)
	case "api-thorough":
		runDirected(e, st, only, "apifault")
		runExhaustive(e, st, "small", 4, quiet, only)
		runExhaustive(e, st, "small", 4, []string{"sd", "sh", "sc", "tc", "th"}, only)
		runExhaustive(e, st, "collide", 4, quiet, only)
		runExhaustive(e, st, "reuse", 5, []string{"nd", "nc", "nh"}, only)
		runExhaustive(e, st, "njd", 5, []string{"nd", "nc", "nh"}, only)
		runExhaustive(e, st, "njd", 4, []string{"sd", "sh", "sc", "td"}, only)
		runExhaustive(e, st, "reuse", 4, []string{"sd", "sh", "sc", "td"}, only)
		runExhaustive(e, st, "extreme", 3, []string{"nd", "nc", "nh", "td", "tc", "th"}, only)
		runExhaustive(e, st, "extreme-started", 3, []string{"sd", "sh", "sc"}, only)
		runExhaustive(e, st, "full4", 3, []string{"nd", "nc", "nh"}, only)
		runExhaustive(e, st, "full", 2, all, only)
		runExhaustive(e, st, "full", 1, all, only)
		runRandom(e, st, r, 6000, 60, false, all, only)
	case "fetch-quick":
		runDirected(e, st, only, "")
		runRandom(e, st, r, 1500, 40, true, []string{"nd", "nc", "nh"}, only)
	case "fetch-thorough":
		runDirected(e, st, only, "")
		runRandom(e, st, r, 20000, 40, true, []string{"nd", "nc", "nh"}, only)
		runRandom(e, st, r, 2000, 200, true, []string{"nd", "nc", "nh"}, only)
	default:
		fmt.Fprintln(os.Stderr, "unknown profile", args[0])
		os.Exit(2)
	}
	wg.Wait()
	e.w.Flush()
	fmt.Printf("{\"sequences\": %d, \"calls\": %d, \"queue_calls_checked\": %d, \"lock_violations\": %d, \"first_violation\": %q, \"bad_illegal_state_wrapping\": %d, \"stalled_retries\": %d, \"blocked\": %d}\n",
		st.sequences, st.calls, st.lockCalls, st.lockViolations, st.firstViolation, st.badWrap, st.stalled, st.blocked)
}
