package main

import (
	"context"
	"encoding/json"
	"fmt"
	"math/rand"
	"os"
	"strconv"
	"strings"
	"sync"
	"time"

	"github.com/reugn/go-quartz/matcher"
	"github.com/reugn/go-quartz/quartz"
)

// Concurrent API histories: 8 client goroutines call the API on one started scheduler (or two sharing the queue)
// while two short-interval jobs fire. Every call is recorded with its invocation and response time on one
// monotonic clock and with its projected result; the check searches for a sequential order of the registry
// specification that explains the history.

type cop struct {
	Cl   int    `json:"cl"`
	Op   string `json:"op"`  // S D P R G K C
	Key  string `json:"key"` // name/group
	Repl bool   `json:"repl"`
	Susp bool   `json:"susp"`
	Tid  int    `json:"tid"`  // S: trigger id
	Fail bool   `json:"fail"` // S: the trigger always fails
	T0   int64  `json:"t0"`
	T1   int64  `json:"t1"`
	Res  string `json:"res"`
}

type round struct {
	Round      int            `json:"round"`
	Variant    string         `json:"variant"`
	Initial    map[string]int `json:"initial"` // firing jobs present at the start: key -> tid
	Ops        []cop          `json:"ops"`
	Violations int64          `json:"lock_violations"`
	First      string         `json:"first_violation"`
	Fired      int64          `json:"fired"`
}

func projGet(sj quartz.ScheduledJob) string {
	p := "a"
	if sj.NextRunTime() == int64(1<<63-1) {
		p = "p"
	}
	// Options().Suspended of the returned entry is not read here: with the default queue it is the live
	// JobDetailOptions that PauseJob / ResumeJob write under the locker (paused keys are observed atomically
	// through GetJobKeys(matcher.JobPaused()) instead)
	return "J:" + p + ":" + strconv.Itoa(tidOf(sj.Trigger()))
}

func cmdConc(args []string) {
	if len(args) < 3 {
		fmt.Fprintln(os.Stderr, "usage: schedh conc <seed> <rounds> <variant>")
		os.Exit(2)
	}
	seed, _ := strconv.ParseInt(args[0], 10, 64)
	rounds, _ := strconv.Atoi(args[1])
	variant := args[2]
	enc := json.NewEncoder(os.Stdout)
	for rd := 0; rd < rounds; rd++ {
		r := rand.New(rand.NewSource(seed + int64(rd)*7919))
		locker := &recLocker{}
		var inner quartz.JobQueue = quartz.NewJobQueue()
		if variant[1] == 'c' {
			inner = &copyQueue{inner}
		}
		rq := &recQueue{inner: inner, locker: locker}
		n := 1
		if variant[1] == 'h' {
			n = 2
		}
		var scheds []quartz.Scheduler
		ctx, cancel := context.WithCancel(context.Background())
		for i := 0; i < n; i++ {
			opts := []quartz.SchedulerOpt{quartz.WithQueue(rq, locker), quartz.WithOutdatedThreshold(5 * time.Second)}
			if r.Intn(2) == 0 {
				opts = append(opts, quartz.WithWorkerLimit(2))
			}
			s, err := quartz.NewStdScheduler(opts...)
			if err != nil {
				panic(err)
			}
			s.Start(ctx)
			scheds = append(scheds, s)
		}
		// two firing jobs
		out := round{Round: rd, Variant: variant, Initial: map[string]int{}}
		fj := []*rjob{{key: "f1/default"}, {key: "f2/default"}}
		for i, j := range fj {
			t := newSimple(100+i, int64(time.Duration(1+i)*time.Millisecond))
			if err := scheds[0].ScheduleJob(quartz.NewJobDetail(j, quartz.NewJobKey("f"+strconv.Itoa(i+1))), t); err != nil {
				panic(err)
			}
			out.Initial[j.key] = t.id
		}
		var mu sync.Mutex
		var wg sync.WaitGroup
		nextTid := 0
		clients, perClient := 8, 5+r.Intn(3)
		seeds := make([]int64, clients)
		for c := range seeds {
			seeds[c] = r.Int63()
		}
		start := make(chan struct{})
		for c := 0; c < clients; c++ {
			wg.Add(1)
			go func(c int) {
				defer wg.Done()
				cr := rand.New(rand.NewSource(seeds[c]))
				<-start
				for i := 0; i < perClient; i++ {
					s := scheds[cr.Intn(len(scheds))]
					name := []string{"a", "b"}[cr.Intn(2)]
					key := quartz.NewJobKey(name)
					o := cop{Cl: c, Key: name + "/default"}
					pick := cr.Intn(100)
					var run func() string
					switch {
					case pick < 32:
						o.Op, o.Repl, o.Susp, o.Fail = "S", cr.Intn(3) == 0, cr.Intn(3) == 0, cr.Intn(5) == 0
						mu.Lock()
						o.Tid = nextTid
						nextTid++
						mu.Unlock()
						var t *rtrig
						if o.Fail {
							t = newFail(o.Tid, 5)
						} else {
							t = newSimple(o.Tid, futNS)
						}
						opts := quartz.NewDefaultJobDetailOptions()
						opts.Replace, opts.Suspended = o.Repl, o.Susp
						jd := quartz.NewJobDetailWithOptions(noJob, key, opts)
						run = func() string { return errClass(s.ScheduleJob(jd, t)) }
					case pick < 47:
						o.Op = "D"
						run = func() string { return errClass(s.DeleteJob(key)) }
					case pick < 64:
						o.Op = "P"
						run = func() string { return errClass(s.PauseJob(key)) }
					case pick < 81:
						o.Op = "R"
						run = func() string { return errClass(s.ResumeJob(key)) }
					case pick < 90:
						o.Op = "G"
						run = func() string {
							sj, err := s.GetScheduledJob(key)
							if err != nil {
								return errClass(err)
							}
							return projGet(sj)
						}
					case pick < 95:
						o.Op, o.Key = "Kp", ""
						run = func() string {
							keys, err := s.GetJobKeys(matcher.JobPaused())
							if err != nil {
								return errClass(err)
							}
							ks := make([]string, len(keys))
							for i, k := range keys {
								ks[i] = keyStr(k)
							}
							sortStrings(ks)
							return "K:" + strings.Join(ks, ",")
						}
					case pick < 98:
						o.Op, o.Key = "K", ""
						run = func() string {
							keys, err := s.GetJobKeys()
							if err != nil {
								return errClass(err)
							}
							ks := make([]string, len(keys))
							for i, k := range keys {
								ks[i] = keyStr(k)
							}
							sortStrings(ks)
							return "K:" + strings.Join(ks, ",")
						}
					default:
						o.Op, o.Key = "C", ""
						run = func() string { return errClass(s.Clear()) }
					}
					o.T0 = mono()
					o.Res = run()
					o.T1 = mono()
					mu.Lock()
					out.Ops = append(out.Ops, o)
					mu.Unlock()
					if cr.Intn(3) == 0 {
						time.Sleep(time.Duration(cr.Intn(300)) * time.Microsecond)
					}
				}
			}(c)
		}
		time.Sleep(3 * time.Millisecond) // let the jobs fire a few times first
		close(start)
		wg.Wait()
		for _, s := range scheds {
			s.Stop()
		}
		cancel()
		for _, s := range scheds {
			s.Wait(context.Background())
		}
		out.Violations = rq.violations.Load()
		out.First, _ = rq.first.Load().(string)
		out.Fired = fj[0].count.Load() + fj[1].count.Load()
		if err := enc.Encode(out); err != nil {
			panic(err)
		}
	}
}
