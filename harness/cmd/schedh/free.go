package main

import (
	"context"
	"encoding/json"
	"fmt"
	"math/rand"
	"os"
	"strconv"
	"strings"
	"sync"
	"time"

	"github.com/reugn/go-quartz/quartz"
)

// Free-running oracle runs: real schedulers (blocking / worker pool / goroutine per job; one, or two sharing the
// queue and the locker), short-interval jobs with recording triggers and recording jobs, optionally a client
// goroutine pausing / resuming / deleting / re-scheduling / clearing, optionally a foreign goroutine writing
// entries into the shared queue. The event log is checked by the oracles in checks/sched_common.py.

type freeOut struct {
	Mode       string         `json:"mode"`
	Flags      []string       `json:"flags"`
	Seed       int64          `json:"seed"`
	Millis     int            `json:"millis"`
	ThrNS      int64          `json:"thr_ns"`
	Schedulers int            `json:"schedulers"`
	Workers    int            `json:"workers"`
	GoDebug    string         `json:"godebug"`
	Jobs       map[string]int `json:"jobs"` // key -> trigger id
	Events     []event        `json:"events"`
	Violations int64          `json:"lock_violations"`
	First      string         `json:"first_violation"`
	WaitOK     bool           `json:"wait_ok"`
	PushFails  int64          `json:"push_failures"`
	StopMono   int64          `json:"stop_mono"` // just before Stop was called
}

func cmdFree(args []string) {
	if len(args) < 4 {
		fmt.Fprintln(os.Stderr, "usage: schedh free <blocking|pool|unbounded> <seed> <millis> <flags: shared,foreign,api,-> ")
		os.Exit(2)
	}
	mode := args[0]
	seed, _ := strconv.ParseInt(args[1], 10, 64)
	millis, _ := strconv.Atoi(args[2])
	flags := map[string]bool{}
	for _, f := range strings.Split(args[3], ",") {
		flags[f] = true
	}
	r := rand.New(rand.NewSource(seed))
	log := &evlog{}
	thr := 40 * time.Millisecond
	slow := time.Duration(1)
	if flags["slow"] { // jobs take longer than their intervals allow and the tolerance is short: misfires in every mode
		thr = 15 * time.Millisecond
		slow = 5
	}
	out := freeOut{Mode: mode, Seed: seed, Millis: millis, ThrNS: int64(thr), GoDebug: os.Getenv("GODEBUG"), Jobs: map[string]int{}}
	for f := range flags {
		out.Flags = append(out.Flags, f)
	}

	locker := &recLocker{}
	if flags["slowlock"] { // acquiring the shared locker takes a while, as with a distributed lock
		locker.latency = 400 * time.Microsecond
	}
	fq := &faultQueue{inner: quartz.NewJobQueue()}
	if flags["pushfail"] { // a persistent queue with transient failures: every 23rd Push fails
		fq.every = 23
	}
	rq := &recQueue{inner: fq, locker: locker}
	misfired := make(chan quartz.ScheduledJob, 4096)
	n := 1
	if flags["shared"] {
		n = 2
	}
	out.Schedulers = n
	var scheds []quartz.Scheduler
	ctx, cancel := context.WithCancel(context.Background())
	for i := 0; i < n; i++ {
		opts := []quartz.SchedulerOpt{quartz.WithQueue(rq, locker), quartz.WithOutdatedThreshold(thr), quartz.WithMisfiredChan(misfired)}
		switch mode {
		case "blocking":
			opts = append(opts, quartz.WithBlockingExecution())
		case "blockpool": // both options: documented as blocking execution, the worker limit is ignored
			opts = append(opts, quartz.WithBlockingExecution(), quartz.WithWorkerLimit(3))
		case "pool":
			out.Workers = 3
			opts = append(opts, quartz.WithWorkerLimit(3))
		}
		s, err := quartz.NewStdScheduler(opts...)
		if err != nil {
			panic(err)
		}
		scheds = append(scheds, s)
	}
	var mwg sync.WaitGroup
	mwg.Add(1)
	mdone := make(chan struct{})
	go func() {
		defer mwg.Done()
		for {
			select {
			case m := <-misfired:
				log.add(event{Kind: "misfire", Mono: mono(), Key: keyStr(m.JobDetail().JobKey()), Res: m.NextRunTime(), Tid: tidOf(m.Trigger())})
			case <-mdone:
				for {
					select {
					case m := <-misfired:
						log.add(event{Kind: "misfire", Mono: mono(), Key: keyStr(m.JobDetail().JobKey()), Res: m.NextRunTime(), Tid: tidOf(m.Trigger())})
					default:
						return
					}
				}
			}
		}
	}()

	intervals := []time.Duration{2, 3, 5, 8, 13, 21}
	durs := []time.Duration{0, 1, 3, 0, 6, 0}
	type jt struct {
		job *rjob
		tr  *rtrig
		key *quartz.JobKey
	}
	var jobs []jt
	for i := range intervals {
		key := quartz.NewJobKey("j" + strconv.Itoa(i))
		ks := keyStr(key)
		t := newSimple(i, int64(intervals[i]*time.Millisecond))
		t.log, t.key = log, ks
		j := &rjob{key: ks, tid: i, log: log, dur: slow * durs[i] * time.Millisecond}
		jobs = append(jobs, jt{j, t, key})
		out.Jobs[ks] = i
	}
	// jobs whose trigger gives up: an unrelated error at the 8th call, the expiry sentinel wrapped with %w at the 6th
	for i, fc := range []struct{ from, code int }{{8, 9}, {6, wrappedExpired}} {
		key := quartz.NewJobKey("err" + strconv.Itoa(i))
		ks := keyStr(key)
		t := newSimple(40+i, int64((4+2*time.Duration(i))*time.Millisecond))
		t.failFrom, t.failCode = fc.from, fc.code
		t.log, t.key = log, ks
		jobs = append(jobs, jt{&rjob{key: ks, tid: 40 + i, log: log}, t, key})
		out.Jobs[ks] = 40 + i
	}
	{ // run-once job
		key := quartz.NewJobKey("once")
		ks := keyStr(key)
		t := newOnce(50, int64(15*time.Millisecond), false)
		t.log, t.key = log, ks
		jobs = append(jobs, jt{&rjob{key: ks, tid: 50, log: log}, t, key})
		out.Jobs[ks] = 50
	}
	api := func(cl int, op string, key string, s quartz.Scheduler, f func() error) string {
		t0 := mono()
		err := f()
		t1 := mono()
		res := errClass(err)
		log.add(event{Kind: "api", Op: op, Key: key, Mono0: t0, Mono: t1, Err: res, Cl: cl})
		return res
	}
	schedule := func(cl int, s quartz.Scheduler, j jt, repl, susp bool) {
		o := quartz.NewDefaultJobDetailOptions()
		o.Replace, o.Suspended = repl, susp
		jd := quartz.NewJobDetailWithOptions(j.job, j.key, o)
		op := "S"
		if susp {
			op = "Ss"
		}
		api(cl, op, j.job.key, s, func() error { return s.ScheduleJob(jd, j.tr) })
	}
	// half of the jobs are scheduled before Start, the rest after
	for i, j := range jobs {
		if i%2 == 0 {
			schedule(0, scheds[0], j, false, false)
		}
	}
	for _, s := range scheds {
		s.Start(ctx)
	}
	for i, j := range jobs {
		if i%2 == 1 {
			schedule(0, scheds[i%len(scheds)], j, false, false)
		}
	}
	deadline := time.Now().Add(time.Duration(millis) * time.Millisecond)
	var wg sync.WaitGroup
	if flags["api"] {
		for cl := 1; cl <= 2; cl++ {
			wg.Add(1)
			cr := rand.New(rand.NewSource(r.Int63()))
			go func(cl int) {
				defer wg.Done()
				for time.Now().Before(deadline) {
					s := scheds[cr.Intn(len(scheds))]
					j := jobs[cr.Intn(3)] // j0..j2 are the churned jobs
					switch p := cr.Intn(100); {
					case p < 30:
						api(cl, "P", j.job.key, s, func() error { return s.PauseJob(j.key) })
					case p < 60:
						api(cl, "R", j.job.key, s, func() error { return s.ResumeJob(j.key) })
					case p < 72:
						api(cl, "D", j.job.key, s, func() error { return s.DeleteJob(j.key) })
					case p < 97:
						schedule(cl, s, j, cr.Intn(2) == 0, cr.Intn(5) == 0)
					default:
						api(cl, "C", "", s, func() error { return s.Clear() })
						time.Sleep(time.Duration(1+cr.Intn(3)) * time.Millisecond)
						for _, j := range jobs[:len(jobs)-1] {
							schedule(cl, s, j, false, false)
						}
					}
					time.Sleep(time.Duration(500+cr.Intn(3500)) * time.Microsecond)
				}
			}(cl)
		}
	}
	if flags["foreign"] {
		wg.Add(1)
		fr := rand.New(rand.NewSource(r.Int63()))
		go func() {
			defer wg.Done()
			var fj []jt
			for i := 0; i < 2; i++ {
				key := quartz.NewJobKey("x" + strconv.Itoa(i))
				ks := keyStr(key)
				t := newSimple(60+i, int64(7*time.Millisecond))
				t.log, t.key = log, ks
				fj = append(fj, jt{&rjob{key: ks, tid: 60 + i, log: log}, t, key})
			}
			for time.Now().Before(deadline) {
				j := fj[fr.Intn(2)]
				if fr.Intn(6) == 0 {
					locker.Lock()
					_, err := rq.Remove(j.key)
					m := mono()
					locker.Unlock()
					if err == nil {
						log.add(event{Kind: "foreign", Op: "remove", Mono: m, Key: j.job.key, Tid: j.tr.id})
					}
				} else {
					o := quartz.NewDefaultJobDetailOptions()
					o.Replace = true
					prio := quartz.NowNano() + int64(fr.Intn(4000))*1000
					sj := quartz.VerifNewScheduledJob(quartz.NewJobDetailWithOptions(j.job, j.key, o), j.tr, prio)
					locker.Lock()
					m0 := mono()
					err := rq.Push(sj)
					locker.Unlock()
					if err == nil {
						log.add(event{Kind: "foreign", Op: "push", Mono: m0, Key: j.job.key, Tid: j.tr.id, Res: prio})
					}
					for _, s := range scheds { // a remote change: wake the loops as the documentation of Reset suggests
						s.(*quartz.StdScheduler).Reset()
					}
				}
				time.Sleep(time.Duration(1000+fr.Intn(4000)) * time.Microsecond)
			}
		}()
	}
	time.Sleep(time.Until(deadline))
	wg.Wait()
	out.StopMono = mono()
	for _, s := range scheds {
		s.Stop()
	}
	cancel()
	wctx, wcancel := context.WithTimeout(context.Background(), 30*time.Second)
	for _, s := range scheds {
		s.Wait(wctx)
	}
	out.WaitOK = wctx.Err() == nil
	wcancel()
	close(mdone)
	mwg.Wait()
	out.Events = log.take()
	out.Violations = rq.violations.Load()
	out.First, _ = rq.first.Load().(string)
	out.PushFails = fq.failed.Load()
	if err := json.NewEncoder(os.Stdout).Encode(out); err != nil {
		panic(err)
	}
}
