// schedh: correspondence and oracle harness for the scheduler engine (C03, C04, C08, C09).
//
//	schedh steps <profile> <seed> <outfile> [only-seq]   single-goroutine step correspondence (see steps.go)
//	schedh conc <seed> <rounds> <variant>                concurrent API histories against a firing scheduler (JSON lines)
//	schedh free <mode> <seed> <millis> <flags>           free-running schedulers with recording triggers and jobs (JSON)
//	schedh gate pool|window <op> [workers]               an API call placed inside a window of the loop (JSON, see gate.go)
package main

import (
	"fmt"
	"os"
)

func main() {
	if len(os.Args) < 2 {
		fmt.Fprintln(os.Stderr, "usage: schedh steps|conc|free ...")
		os.Exit(2)
	}
	switch os.Args[1] {
	case "steps":
		cmdSteps(os.Args[2:])
	case "conc":
		cmdConc(os.Args[2:])
	case "free":
		cmdFree(os.Args[2:])
	case "gate":
		cmdGate(os.Args[2:])
	default:
		fmt.Fprintln(os.Stderr, "unknown command", os.Args[1])
		os.Exit(2)
	}
}
