package main

import (
	"context"
	"encoding/json"
	"fmt"
	"os"
	"strconv"
	"sync"
	"sync/atomic"
	"time"

	"github.com/reugn/go-quartz/quartz"
)

// Gate scenarios: deterministic placements of an event inside a window that free-running schedulers hit only
// by chance.
//
//	gate pool <op> <workers>   worker-pool scheduler, every worker blocked inside an execution of a 10 ms job while its
//	                           fire times keep passing; then <op> = pause | delete | clear | none; then the gate opens.
//	                           Counted: executions of the job that START after <op> returned (C08: at most one -- the one
//	                           the loop was holding), and at quiescence on-time dequeues vs. executions (C04: every
//	                           fire time dequeued as due is executed; a run-once job scheduled meanwhile runs exactly once).
//	gate window <op>           blocking scheduler whose job's trigger blocks inside NextFireTime when called by the loop
//	                           (fetchAndReschedule between Pop and Push); <op> = clear | delete | pause is called in
//	                           that window, then the trigger is released. After <op> returned Ok: no further trigger call,
//	                           the job is not listed again (C08).
//
// All waits are generous (10 s) and conclusions about absence are drawn after quiet periods.

type gateOut struct {
	Scenario      string  `json:"scenario"`
	Op            string  `json:"op"`
	Workers       int     `json:"workers"`
	OpResult      string  `json:"op_result"`
	WorkersBusy   bool    `json:"workers_busy"`        // every worker was inside Execute when op was called
	Stalled       bool    `json:"loop_stalled"`        // no trigger call during the quiet period before op
	StartsBefore  int64   `json:"starts_before"`       // executions of the job started before op returned
	StartsAfter   int64   `json:"starts_after"`        // ... after op returned
	CallsAfter    int     `json:"trigger_calls_after"` // trigger calls of the job entered after op returned (window: until quiescence)
	OnTimeCalls   int     `json:"on_time_calls"`       // trigger calls with prev = an earlier fire time of the job (due dequeues)
	Execs         int64   `json:"executions"`          // all executions of the job at quiescence
	OnceExecs     int64   `json:"once_executions"`     // run-once job scheduled while the pool was saturated
	OnceListed    bool    `json:"once_listed"`
	ListedAfter   bool    `json:"listed_after"` // the job is in GetJobKeys at the end
	EnteredWindow bool    `json:"entered_window"`
	OpBlocked     bool    `json:"op_waited_for_window"` // op returned only after the trigger was released
	NewExecs      int64   `json:"new_executions"`     // replace: executions of the job object that replaced the gated one
	NewFireTimes  int     `json:"new_fire_times_due"` // replace: fire times of the new job's own trigger that came due (none: first one is 1 h away)
	OldAfter      int64   `json:"old_starts_after"`   // replace: executions of the replaced job object started after the call returned
	Events        []event `json:"events"`
}

type gateJob struct {
	key    string
	log    *evlog
	gate   chan struct{}
	starts atomic.Int64
}

func (j *gateJob) Description() string { return "gatejob" }
func (j *gateJob) Execute(ctx context.Context) error {
	j.starts.Add(1)
	j.log.add(event{Kind: "exec", Mono: mono(), Wall: quartz.NowNano(), Key: j.key})
	select {
	case <-j.gate:
	case <-ctx.Done():
	}
	return nil
}

// waitUntil polls cond every millisecond for at most max.
func waitUntil(max time.Duration, cond func() bool) bool {
	deadline := time.Now().Add(max)
	for !cond() {
		if time.Now().After(deadline) {
			return false
		}
		time.Sleep(time.Millisecond)
	}
	return true
}

// quiet waits until counter() has not changed for `period`, at most max.
func quiet(period, max time.Duration, counter func() int64) bool {
	deadline := time.Now().Add(max)
	last, since := counter(), time.Now()
	for time.Now().Before(deadline) {
		time.Sleep(5 * time.Millisecond)
		if c := counter(); c != last {
			last, since = c, time.Now()
		} else if time.Since(since) >= period {
			return true
		}
	}
	return false
}

func trigCalls(log *evlog, key string) (all int64) {
	log.mu.Lock()
	defer log.mu.Unlock()
	for _, e := range log.evs {
		if e.Kind == "trig" && e.Key == key {
			all++
		}
	}
	return
}

func onTime(evs []event, key string) int {
	seen := map[int64]bool{}
	n := 0
	for _, e := range evs {
		if e.Kind != "trig" || e.Key != key {
			continue
		}
		if seen[e.Prev] {
			n++
		}
		if e.Err == "" {
			seen[e.Res] = true
		}
	}
	return n
}

func applyOp(s quartz.Scheduler, op string, key *quartz.JobKey) error {
	switch op {
	case "pause":
		return s.PauseJob(key)
	case "delete":
		return s.DeleteJob(key)
	case "clear":
		return s.Clear()
	}
	return nil
}

func listed(s quartz.Scheduler, key *quartz.JobKey) bool {
	keys, _ := s.GetJobKeys()
	for _, k := range keys {
		if k.Equals(key) {
			return true
		}
	}
	return false
}

func gatePool(op string, workers int) gateOut {
	out := gateOut{Scenario: "pool", Op: op, Workers: workers}
	log := &evlog{}
	s, err := quartz.NewStdScheduler(quartz.WithWorkerLimit(workers), quartz.WithOutdatedThreshold(time.Minute))
	if err != nil {
		panic(err)
	}
	ctx, cancel := context.WithCancel(context.Background())
	defer cancel()
	s.Start(ctx)
	key := quartz.NewJobKey("gated")
	j := &gateJob{key: keyStr(key), log: log, gate: make(chan struct{})}
	t := newSimple(1, int64(10*time.Millisecond))
	t.log, t.key = log, j.key
	if err := s.ScheduleJob(quartz.NewJobDetail(j, key), t); err != nil {
		panic(err)
	}
	out.WorkersBusy = waitUntil(10*time.Second, func() bool { return j.starts.Load() >= int64(workers) })
	// the loop goes on until it cannot hand over: no trigger call for 300 ms
	out.Stalled = quiet(300*time.Millisecond, 3*time.Second, func() int64 { return trigCalls(log, j.key) })
	// a run-once job becomes due while the pool is saturated (C04: it must still run, exactly once)
	onceKey := quartz.NewJobKey("once")
	once := &rjob{key: keyStr(onceKey), log: log}
	ot := newOnce(2, int64(20*time.Millisecond), false)
	ot.log, ot.key = log, once.key
	if op == "none" {
		if err := s.ScheduleJob(quartz.NewJobDetail(once, onceKey), ot); err != nil {
			panic(err)
		}
		time.Sleep(150 * time.Millisecond)
	}
	res := applyOp(s, op, key)
	tRet := mono()
	out.OpResult = errClass(res)
	out.StartsBefore = j.starts.Load()
	close(j.gate) // executions return at once from now on
	if op == "none" {
		// let the job run freely for a while, then stop it so that the counts settle
		time.Sleep(300 * time.Millisecond)
		_ = s.DeleteJob(key)
	}
	quiet(400*time.Millisecond, 10*time.Second, func() int64 { return j.starts.Load() + trigCalls(log, j.key) + once.count.Load() })
	out.ListedAfter = listed(s, key)
	out.OnceListed = listed(s, onceKey)
	s.Stop()
	s.Wait(context.Background())
	out.Events = log.take()
	for _, e := range out.Events {
		if e.Key != j.key {
			continue
		}
		if e.Kind == "exec" && e.Mono > tRet {
			out.StartsAfter++
		}
		if e.Kind == "trig" && e.Mono > tRet {
			out.CallsAfter++
		}
	}
	out.Execs = j.starts.Load()
	out.OnTimeCalls = onTime(out.Events, j.key)
	out.OnceExecs = once.count.Load()
	return out
}

// gateReplace: worker pool saturated by executions of job object OLD (key K, 10 ms trigger), the loop holds one more dequeued fire
// time of OLD that it cannot hand over; then ScheduleJob(Replace) puts a DIFFERENT job object NEW with its own trigger (first fire
// time one hour away) under K; then the workers become free. C03: what executes answers a fire time of its own trigger -- NEW has
// none that is due, so NEW must not run; the pending fire time belongs to OLD.
func gateReplace(workers int) gateOut {
	out := gateOut{Scenario: "replace", Op: "schedule-replace", Workers: workers}
	log := &evlog{}
	s, err := quartz.NewStdScheduler(quartz.WithWorkerLimit(workers), quartz.WithOutdatedThreshold(time.Minute))
	if err != nil {
		panic(err)
	}
	ctx, cancel := context.WithCancel(context.Background())
	defer cancel()
	s.Start(ctx)
	key := quartz.NewJobKey("gated")
	old := &gateJob{key: keyStr(key), log: log, gate: make(chan struct{})}
	t := newSimple(1, int64(10*time.Millisecond))
	t.log, t.key = log, old.key
	if err := s.ScheduleJob(quartz.NewJobDetail(old, key), t); err != nil {
		panic(err)
	}
	out.WorkersBusy = waitUntil(10*time.Second, func() bool { return old.starts.Load() >= int64(workers) })
	out.Stalled = quiet(300*time.Millisecond, 3*time.Second, func() int64 { return trigCalls(log, old.key) })
	nw := &rjob{key: "new:" + keyStr(key), log: log}
	tn := newSimple(2, int64(time.Hour))
	tn.log, tn.key = log, nw.key
	o := quartz.NewDefaultJobDetailOptions()
	o.Replace = true
	res := s.ScheduleJob(quartz.NewJobDetailWithOptions(nw, key, o), tn)
	tRet := mono()
	out.OpResult = errClass(res)
	out.StartsBefore = old.starts.Load()
	close(old.gate)
	quiet(400*time.Millisecond, 10*time.Second, func() int64 { return old.starts.Load() + nw.count.Load() + trigCalls(log, old.key) + trigCalls(log, nw.key) })
	out.ListedAfter = listed(s, key)
	s.Stop()
	wctx, wcancel := context.WithTimeout(context.Background(), 20*time.Second)
	s.Wait(wctx)
	wcancel()
	end := quartz.NowNano()
	out.Events = log.take()
	for _, e := range out.Events {
		if e.Kind == "exec" && e.Key == old.key && e.Mono > tRet {
			out.OldAfter++
		}
		if e.Kind == "trig" && e.Key == nw.key && e.Err == "" && e.Res <= end {
			out.NewFireTimes++
		}
		if e.Kind == "trig" && e.Key == old.key && e.Mono > tRet {
			out.CallsAfter++
		}
	}
	out.StartsAfter = out.OldAfter
	out.Execs = old.starts.Load()
	out.NewExecs = nw.count.Load()
	out.OnTimeCalls = onTime(out.Events, old.key)
	return out
}

// gateTrig blocks inside NextFireTime on every call but the first (the one ScheduleJob makes).
type gateTrig struct {
	inner   *rtrig
	n       atomic.Int64
	entered chan struct{}
	release chan struct{}
	once    sync.Once
}

func (g *gateTrig) Description() string { return "gatetrig" }
func (g *gateTrig) NextFireTime(prev int64) (int64, error) {
	if g.n.Add(1) == 2 {
		g.once.Do(func() { close(g.entered) })
		select {
		case <-g.release:
		case <-time.After(20 * time.Second):
		}
	}
	return g.inner.NextFireTime(prev)
}

func gateWindow(op string) gateOut {
	out := gateOut{Scenario: "window", Op: op}
	log := &evlog{}
	s, err := quartz.NewStdScheduler(quartz.WithBlockingExecution(), quartz.WithOutdatedThreshold(time.Minute))
	if err != nil {
		panic(err)
	}
	ctx, cancel := context.WithCancel(context.Background())
	defer cancel()
	s.Start(ctx)
	key := quartz.NewJobKey("windowed")
	j := &rjob{key: keyStr(key), log: log}
	inner := newSimple(1, int64(20*time.Millisecond))
	inner.log, inner.key = log, j.key
	g := &gateTrig{inner: inner, entered: make(chan struct{}), release: make(chan struct{})}
	if err := s.ScheduleJob(quartz.NewJobDetail(j, key), g); err != nil {
		panic(err)
	}
	select {
	case <-g.entered:
		out.EnteredWindow = true
	case <-time.After(10 * time.Second):
	}
	// the loop is inside fetchAndReschedule, between Pop and Push, evaluating the trigger
	done := make(chan error, 1)
	var tRet atomic.Int64
	go func() {
		e := applyOp(s, op, key)
		tRet.Store(mono())
		done <- e
	}()
	var res error
	select {
	case res = <-done: // returned although the step is still in progress
	case <-time.After(300 * time.Millisecond):
		out.OpBlocked = true
	}
	close(g.release)
	if out.OpBlocked {
		select {
		case res = <-done:
		case <-time.After(20 * time.Second):
			res = fmt.Errorf("op did not return")
		}
	}
	out.OpResult = errClass(res)
	quiet(500*time.Millisecond, 10*time.Second, func() int64 { return trigCalls(log, j.key) + j.count.Load() })
	out.ListedAfter = listed(s, key)
	s.Stop()
	s.Wait(context.Background())
	out.Events = log.take()
	for _, e := range out.Events {
		if e.Key != j.key {
			continue
		}
		if e.Kind == "exec" && e.Mono > tRet.Load() {
			out.StartsAfter++
		}
		if e.Kind == "trig" && e.Mono > tRet.Load() {
			out.CallsAfter++
		}
	}
	out.Execs = j.count.Load()
	out.OnTimeCalls = onTime(out.Events, j.key)
	return out
}

// gateBoth: WithBlockingExecution together with WithWorkerLimit(n) is blocking execution (the limit is ignored): a 10 ms
// job and a run-once job must simply run.
func gateBoth(workers int) gateOut {
	out := gateOut{Scenario: "both", Op: "none", Workers: workers, WorkersBusy: true}
	log := &evlog{}
	s, err := quartz.NewStdScheduler(quartz.WithBlockingExecution(), quartz.WithWorkerLimit(workers), quartz.WithOutdatedThreshold(time.Minute))
	if err != nil {
		panic(err)
	}
	ctx, cancel := context.WithCancel(context.Background())
	defer cancel()
	s.Start(ctx)
	key := quartz.NewJobKey("both")
	j := &rjob{key: keyStr(key), log: log}
	t := newSimple(1, int64(10*time.Millisecond))
	t.log, t.key = log, j.key
	onceKey := quartz.NewJobKey("once")
	once := &rjob{key: keyStr(onceKey), log: log}
	ot := newOnce(2, int64(20*time.Millisecond), false)
	ot.log, ot.key = log, once.key
	if err := s.ScheduleJob(quartz.NewJobDetail(j, key), t); err != nil {
		panic(err)
	}
	if err := s.ScheduleJob(quartz.NewJobDetail(once, onceKey), ot); err != nil {
		panic(err)
	}
	time.Sleep(400 * time.Millisecond)
	done := make(chan struct{})
	go func() { _ = s.DeleteJob(key); close(done) }()
	select {
	case <-done:
	case <-time.After(10 * time.Second):
		out.OpResult = "delete did not return"
	}
	quiet(400*time.Millisecond, 10*time.Second, func() int64 { return j.count.Load() + trigCalls(log, j.key) + once.count.Load() })
	out.OnceListed = listed(s, onceKey)
	s.Stop()
	wctx, wcancel := context.WithTimeout(context.Background(), 20*time.Second)
	s.Wait(wctx)
	wcancel()
	out.Events = log.take()
	out.Execs = j.count.Load()
	out.OnTimeCalls = onTime(out.Events, j.key)
	out.OnceExecs = once.count.Load()
	return out
}

func cmdGate(args []string) {
	if len(args) < 2 {
		fmt.Fprintln(os.Stderr, "usage: schedh gate pool <pause|delete|clear|none> <workers> | gate window <clear|delete|pause> | gate both <workers>")
		os.Exit(2)
	}
	var out gateOut
	switch args[0] {
	case "pool":
		w := 3
		if len(args) > 2 {
			w, _ = strconv.Atoi(args[2])
		}
		out = gatePool(args[1], w)
	case "window":
		out = gateWindow(args[1])
	case "both":
		w, _ := strconv.Atoi(args[1])
		out = gateBoth(w)
	case "replace":
		w, _ := strconv.Atoi(args[1])
		out = gateReplace(w)
	default:
		fmt.Fprintln(os.Stderr, "unknown gate scenario", args[0])
		os.Exit(2)
	}
	if err := json.NewEncoder(os.Stdout).Encode(out); err != nil {
		panic(err)
	}
}
