package main

import (
	"context"
	"fmt"
	"sync/atomic"
	"time"

	"github.com/reugn/go-quartz/job"
	"github.com/reugn/go-quartz/quartz"
)

func main() {
	stale := 0
	trials := 40
	for t := 0; t < trials; t++ {
		s, _ := quartz.NewStdScheduler(quartz.WithWorkerLimit(1))
		rel1 := make(chan struct{})
		j1 := job.NewFunctionJob(func(ctx context.Context) (int, error) { <-rel1; return 0, nil })
		s.ScheduleJob(quartz.NewJobDetail(j1, quartz.NewJobKey("j1")), quartz.NewRunOnceTrigger(time.Millisecond))
		s.Start(context.Background())
		time.Sleep(30 * time.Millisecond) // j1 is running in the old worker
		s.Stop()
		s.Start(context.Background())
		// new run: x1 occupies the new worker, x2 makes the loop block in the hand-over
		rel2 := make(chan struct{})
		var cancelledCtxRuns atomic.Int32
		mk := func(name string) {
			j := job.NewFunctionJob(func(ctx context.Context) (int, error) {
				if ctx.Err() != nil {
					cancelledCtxRuns.Add(1)
				}
				<-rel2
				return 0, nil
			})
			s.ScheduleJob(quartz.NewJobDetail(j, quartz.NewJobKey(name)), quartz.NewRunOnceTrigger(time.Millisecond))
		}
		mk("x1")
		time.Sleep(20 * time.Millisecond)
		mk("x2")
		time.Sleep(20 * time.Millisecond)
		close(rel1) // the old run's worker finishes j1 and goes back to its select
		time.Sleep(30 * time.Millisecond)
		close(rel2)
		time.Sleep(20 * time.Millisecond)
		if cancelledCtxRuns.Load() > 0 {
			stale++
		}
		s.Stop()
		s.Wait(context.Background())
	}
	fmt.Printf("trials=%d, a job of the new run was executed by a worker of the stopped run (cancelled ctx)=%d\n", trials, stale)
}
