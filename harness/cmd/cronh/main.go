// cronh: correspondence harness for the cron trigger (C01, C02, C06, C14).
//
//	cronh fixed -seed S -from A -to B      cases A..B-1 (each derived from (S, index) only): UTC / fixed-offset
//	                                       locations, prev placed at boundaries and along chains
//	cronh zone  -seed S -from A -to B -zones z1,z2   DST locations, prev placed around transitions
//	cronh cal   -ystep K                   calendar helpers and L/W/# day targets for every month 1969..2263 (every K-th year + leap years)
//	cronh pure  -seed S -n N               one trigger called from 16 goroutines (build with -race)
//
// Output: tab separated lines, first column is the record kind:
//
//	Z  zoneid off0 t1 o1 t2 o2 ...                  zone table as Go sees it (ZoneBounds)
//	C  id zoneid prev gores f1..f9 | expr | loc | class | oracle     one NextFireTime call (gores = F<ns> or E or X<err>)
//	D  id y m d | lastDay weekday closest           calendar helpers
//	N  id y m f1..f9 | day ok                       DayNode.dayN
//
// A watchdog aborts (exit 3, line "HANG ...") if a single call takes longer than 10 s.
package main

import (
	"bufio"
	"errors"
	"flag"
	"fmt"
	"math"
	"math/rand"
	"os"
	"sort"
	"strings"
	"sync"
	"sync/atomic"
	"time"

	"github.com/reugn/go-quartz/quartz"
)

type dayRule struct {
	kind int // 0 any,1 domset,2 L,3 L-n,4 nW,5 LW,6 dowset,7 dL,8 d#k
	set  []int
	n, k int
}
type expr struct {
	sec, min, hour, month, year []int // nil = any
	day                         dayRule
}

func in(s []int, v int) bool {
	if s == nil {
		return true
	}
	for _, x := range s {
		if x == v {
			return true
		}
	}
	return false
}
func mlen(y, m int) int { return time.Date(y, time.Month(m)+1, 0, 0, 0, 0, 0, time.UTC).Day() }
func wd(y, m, d int) int {
	return int(time.Date(y, time.Month(m), d, 0, 0, 0, 0, time.UTC).Weekday())
}
func isWk(y, m, d int) bool { w := wd(y, m, d); return w != 0 && w != 6 }
func nearestW(y, m, t int) int {
	if isWk(y, m, t) {
		return t
	}
	L := mlen(y, m)
	if wd(y, m, t) == 6 {
		if t > 1 {
			return t - 1
		}
		return t + 2
	}
	if t < L {
		return t + 1
	}
	return t - 2
}

// dayMatch is the harness's own reading of the documented day rules (independent of the model).
func dayMatch(e *expr, y, m, d int) bool {
	L := mlen(y, m)
	if d > L || d < 1 {
		return false
	}
	r := e.day
	switch r.kind {
	case 0:
		return true
	case 1:
		return in(r.set, d)
	case 2:
		return d == L
	case 3:
		return d == L-r.n
	case 4:
		t := r.n
		if t > L {
			t = L
		}
		return d == nearestW(y, m, t)
	case 5:
		return d == nearestW(y, m, L)
	case 6:
		return in(r.set, wd(y, m, d))
	case 7:
		return wd(y, m, d) == r.n && d+7 > L
	case 8:
		return wd(y, m, d) == r.n && (d-1)/7+1 == r.k
	}
	return false
}

func (e *expr) matches(t time.Time) bool {
	y, mo, d := t.Date()
	h, mi, s := t.Clock()
	return in(e.year, y) && y <= 2262 && in(e.month, int(mo)) && dayMatch(e, y, int(mo), d) &&
		in(e.hour, h) && in(e.min, mi) && in(e.sec, s)
}

// bruteNext: earliest matching wall clock reading strictly after the reading of t (UTC arithmetic), day by day.
func bruteNext(e *expr, prev int64, lim int) (int64, bool) {
	t := time.Unix(prev, 0).UTC()
	y, mo, d := t.Date()
	m := int(mo)
	h, mi, s := t.Clock()
	first := true
	for y <= lim {
		if in(e.year, y) && in(e.month, m) && dayMatch(e, y, m, d) {
			for hh := 0; hh < 24; hh++ {
				if !in(e.hour, hh) {
					continue
				}
				for mm := 0; mm < 60; mm++ {
					if !in(e.min, mm) {
						continue
					}
					for ss := 0; ss < 60; ss++ {
						if !in(e.sec, ss) {
							continue
						}
						if first && (hh*3600+mm*60+ss <= h*3600+mi*60+s) {
							continue
						}
						return time.Date(y, time.Month(m), d, hh, mm, ss, 0, time.UTC).Unix(), true
					}
				}
			}
		}
		first = false
		d++
		if d > mlen(y, m) {
			d = 1
			m++
			if m > 12 {
				m = 1
				y++
			}
		}
	}
	return 0, false
}

func floorDiv(a, b int64) int64 {
	q := a / b
	if a%b < 0 {
		q--
	}
	return q
}

var monthNames = []string{"", "JAN", "FEB", "MAR", "APR", "MAY", "JUN", "JUL", "AUG", "SEP", "OCT", "NOV", "DEC"}
var dayNames = []string{"", "SUN", "MON", "TUE", "WED", "THU", "FRI", "SAT"}

func mixCase(r *rand.Rand, s string) string {
	b := []byte(s)
	for i := range b {
		if r.Intn(2) == 0 && b[i] >= 'A' && b[i] <= 'Z' {
			b[i] += 'a' - 'A'
		}
	}
	return string(b)
}

// renderSet writes a value set in a random syntactic variant with the same meaning:
// list, ranges for consecutive runs, steps for arithmetic progressions that fill the field, names.
func renderSet(r *rand.Rand, s []int, lo, hi int, names []string, shift int) string {
	if s == nil {
		return "*"
	}
	item := func(v int) string {
		v += shift
		if names != nil && r.Intn(2) == 0 {
			return mixCase(r, names[v])
		}
		return fmt.Sprint(v)
	}
	// whole set as a step expression a/s or a-b/s
	if len(s) >= 2 && r.Intn(3) == 0 {
		st := s[1] - s[0]
		ok := st > 0
		for i := 2; i < len(s) && ok; i++ {
			ok = s[i]-s[i-1] == st
		}
		if ok && st <= hi+shift {
			last := s[len(s)-1]
			if last+st > hi { // runs to the end of the field: a/s
				if s[0] == lo && r.Intn(2) == 0 {
					return fmt.Sprintf("*/%d", st)
				}
				return fmt.Sprintf("%s/%d", item(s[0]), st)
			}
			return fmt.Sprintf("%s-%s/%d", item(s[0]), item(last), st)
		}
	}
	var parts []string
	for i := 0; i < len(s); {
		j := i
		for j+1 < len(s) && s[j+1] == s[j]+1 {
			j++
		}
		if j > i && r.Intn(3) != 0 {
			parts = append(parts, item(s[i])+"-"+item(s[j]))
			i = j + 1
			continue
		}
		parts = append(parts, item(s[i]))
		i++
	}
	if r.Intn(5) == 0 {
		// the parser keeps duplicates: repeat a member, or let two ranges overlap in one value
		parts = append(parts, parts[r.Intn(len(parts))])
	}
	if r.Intn(4) == 0 {
		r.Shuffle(len(parts), func(a, b int) { parts[a], parts[b] = parts[b], parts[a] })
	}
	return strings.Join(parts, ",")
}

func (e *expr) render(r *rand.Rand) string {
	dom, dow := "?", "?"
	if r.Intn(2) == 0 {
		if e.day.kind >= 6 {
			dom = "*"
		} else {
			dow = "*"
		}
	}
	d := e.day
	switch d.kind {
	case 0:
		dom = "*"
		if r.Intn(3) == 0 {
			dom = "?"
			if dow == "?" && r.Intn(2) == 0 {
				dow = "*"
			}
		}
	case 1:
		dom = renderSet(r, d.set, 1, 31, nil, 0)
	case 2:
		dom = "L"
	case 3:
		dom = fmt.Sprintf("L-%d", d.n)
	case 4:
		dom = fmt.Sprintf("%dW", d.n)
	case 5:
		dom = "LW"
	case 6:
		dow = renderSet(r, d.set, 0, 6, dayNames, 1)
	case 7:
		if d.n == 6 && r.Intn(3) == 0 {
			dow = "L"
		} else if r.Intn(2) == 0 {
			dow = mixCase(r, dayNames[d.n+1]) + "L"
		} else {
			dow = fmt.Sprintf("%dL", d.n+1)
		}
	case 8:
		if r.Intn(2) == 0 {
			dow = fmt.Sprintf("%s#%d", mixCase(r, dayNames[d.n+1]), d.k)
		} else {
			dow = fmt.Sprintf("%d#%d", d.n+1, d.k)
		}
	}
	s := []string{renderSet(r, e.sec, 0, 59, nil, 0), renderSet(r, e.min, 0, 59, nil, 0), renderSet(r, e.hour, 0, 23, nil, 0),
		dom, renderSet(r, e.month, 1, 12, monthNames, 0), dow}
	if e.year != nil {
		s = append(s, renderSet(r, e.year, 1970, 3940, nil, 0))
	} else if r.Intn(4) == 0 {
		s = append(s, "*")
	}
	sep := " "
	if r.Intn(5) == 0 {
		sep = "  \t"
	}
	return strings.Join(s, sep)
}

func rset(r *rand.Rand, lo, hi int) []int {
	switch r.Intn(5) {
	case 0:
		return nil
	case 1:
		return []int{lo + r.Intn(hi-lo+1)}
	case 2: // arithmetic progression
		st := 1 + r.Intn((hi-lo)/2+1)
		a := lo + r.Intn(hi-lo+1)
		var s []int
		for v := a; v <= hi && len(s) < 8; v += st {
			s = append(s, v)
		}
		return s
	}
	n := 1 + r.Intn(4)
	m := map[int]bool{}
	for i := 0; i < n; i++ {
		m[lo+r.Intn(hi-lo+1)] = true
	}
	var s []int
	for k := range m {
		s = append(s, k)
	}
	sort.Ints(s)
	return s
}

func genExpr(r *rand.Rand, subDaily bool) *expr {
	e := &expr{sec: rset(r, 0, 59), min: rset(r, 0, 59), hour: rset(r, 0, 23), month: rset(r, 1, 12)}
	if subDaily {
		if e.sec == nil && r.Intn(2) == 0 {
			e.sec = []int{r.Intn(60)}
		}
		if r.Intn(3) != 0 {
			e.month = nil
		}
		if r.Intn(2) == 0 { // hours around typical transition times
			e.hour = rset(r, 0, 4)
		}
	}
	switch r.Intn(10) {
	case 0:
		e.year = rset(r, 2020, 2030)
	case 1:
		e.year = rset(r, 1970, 2300)
	case 2:
		e.year = rset(r, 2255, 2270)
	}
	k := r.Intn(9)
	if subDaily && r.Intn(2) == 0 {
		k = 0
	}
	e.day.kind = k
	switch k {
	case 1:
		e.day.set = rset(r, 1, 31)
		if e.day.set == nil {
			e.day.kind = 0
		}
		if r.Intn(4) == 0 { // days that short months lack
			e.day.set = [][]int{{31}, {30}, {29}, {30, 31}, {29, 31}}[r.Intn(5)]
		}
	case 3:
		e.day.n = 1 + r.Intn(31)
	case 4:
		e.day.n = 1 + r.Intn(31)
	case 6:
		e.day.set = rset(r, 0, 6)
		if e.day.set == nil {
			e.day.set = []int{r.Intn(7)}
		}
	case 7:
		e.day.n = r.Intn(7)
	case 8:
		e.day.n = r.Intn(7)
		e.day.k = 1 + r.Intn(5)
	}
	return e
}

// ---- watchdog ----
var current atomic.Value // string: the case being evaluated
var startedAt atomic.Int64

func watchdog() {
	for {
		time.Sleep(500 * time.Millisecond)
		st := startedAt.Load()
		if st != 0 && time.Now().UnixNano()-st > int64(10*time.Second) {
			fmt.Printf("HANG\t%v\n", current.Load())
			os.Stdout.Sync()
			os.Exit(3)
		}
	}
}

func fire(tr *quartz.CronTrigger, prev int64, desc string) string {
	current.Store(desc)
	startedAt.Store(time.Now().UnixNano())
	defer func() {
		// a panic inside NextFireTime: name the input, then die as the process would have
		if r := recover(); r != nil {
			out.Flush()
			fmt.Printf("PANIC\t%s\t%v\n", desc, r)
			os.Stdout.Sync()
			panic(r)
		}
	}()
	ns, err := tr.NextFireTime(prev)
	startedAt.Store(0)
	if err != nil {
		if errors.Is(err, quartz.ErrTriggerExpired) {
			return "E"
		}
		return "X" + strings.ReplaceAll(err.Error(), "\t", " ")
	}
	return fmt.Sprintf("F%d", ns)
}

func fieldTokens(f quartz.VerifFields) string {
	tok := func(v []int) string {
		if len(v) == 0 {
			return "-"
		}
		p := make([]string, len(v))
		for i, x := range v {
			p[i] = fmt.Sprint(x)
		}
		return strings.Join(p, ",")
	}
	return strings.Join([]string{tok(f.Values[0]), tok(f.Values[1]), tok(f.Values[2]), tok(f.Values[3]), fmt.Sprint(f.N[3]),
		tok(f.Values[4]), tok(f.Values[5]), fmt.Sprint(f.N[5]), tok(f.Values[6])}, " ")
}

var fixedOffsets = []int{0, 0, 0, 3600, -3600, 19800, 20700, -43200, 50400, 45900, -34200, 1234, -86399 + 3600*2, 86399 - 3600*2, 7200, -18000}

const maxNs = math.MaxInt64

var out = bufio.NewWriterSize(os.Stdout, 1<<20)

func emitCase(id string, zid string, prev int64, res string, ftoks, ex, loc, class, oracle string) {
	fmt.Fprintf(out, "C\t%s\t%s\t%d\t%s\t%s\t%s\t%s\t%s\t%s\n", id, zid, prev, res, ftoks, strings.ReplaceAll(ex, "\t", "\\t"), loc, class, oracle)
}

// prev placements that do not depend on the schedule (local boundaries in the location's offset)
func boundaryPrev(r *rand.Rand, off int) (int64, string) {
	y := 1970 + r.Intn(292)
	var t time.Time
	var class string
	switch r.Intn(7) {
	case 0:
		m := 1 + r.Intn(12)
		t = time.Date(y, time.Month(m), mlen(y, m), 23, 59, 59, 0, time.UTC)
		class = "month-end"
	case 1:
		m := 1 + r.Intn(12)
		t = time.Date(y, time.Month(m), 1, 0, 0, 0, 0, time.UTC)
		class = "month-start"
	case 2:
		y = 1972 + 4*r.Intn(72)
		t = time.Date(y, 2, 28+r.Intn(2), 23, 59, 59-r.Intn(2), 0, time.UTC)
		class = "leap-feb"
	case 3:
		t = time.Date(y, 12, 31, 23, 59, 59, 0, time.UTC)
		class = "year-end"
	case 4:
		t = time.Date(y, time.Month(1+r.Intn(12)), 1+r.Intn(28), 0, 0, 0, 0, time.UTC)
		class = "midnight"
	case 5:
		t = time.Date(y, 2, 28, 12, 0, 0, 0, time.UTC)
		class = "feb-28"
	default:
		t = time.Unix(r.Int63n(9223372036), 0).UTC()
		class = "uniform"
	}
	if r.Intn(12) == 0 {
		// century years (leap rule exceptions): any day of January..March and the year's end
		cy := []int{2000, 2100, 2200}[r.Intn(3)]
		if r.Intn(4) == 0 {
			t = time.Date(cy-1, 12, 25+r.Intn(7), r.Intn(24), r.Intn(60), r.Intn(60), 0, time.UTC)
		} else {
			t = time.Date(cy, time.Month(1+r.Intn(3)), 1+r.Intn(28), r.Intn(24), r.Intn(60), r.Intn(60), 0, time.UTC)
		}
		class = "century-year"
	}
	sec := t.Unix() - int64(off) + int64(r.Intn(3)-1)
	if sec < 0 {
		sec = 0
	}
	if sec > 9223372035 {
		sec = 9223372035
	}
	ns := sec*1000000000 + int64(r.Intn(3))*int64(r.Intn(1000000000))
	if r.Intn(16) == 0 {
		// instants before 1970 (negative prev), whole seconds and fractions of a second
		switch r.Intn(3) {
		case 0:
			ns = -int64(r.Intn(3000000000)) // the last three seconds of 1969
		case 1:
			ns = -r.Int63n(946684800000000000) // 1940..1969 (the reference search walks at most 4000 months)
		default:
			ns = -(r.Int63n(946684800) * 1000000000) // whole seconds
		}
		class = "before-1970"
	}
	return ns, class
}

var fieldBounds = [7][2]int{{0, 59}, {0, 59}, {0, 23}, {1, 31}, {1, 12}, {1, 7}, {1970, 3940}}

// crossBoundary rewrites one field of a rendered expression so that it mentions a value just outside
// the field's documented range (hi+1 or lo-1) as a single value, list member, range end or step bound.
func crossBoundary(r *rand.Rand, ex string) string {
	toks := strings.Fields(ex)
	if len(toks) < 6 {
		return ex
	}
	i := r.Intn(len(toks))
	lo, hi := fieldBounds[i][0], fieldBounds[i][1]
	st := 1 + r.Intn(3)
	forms := []string{
		fmt.Sprint(hi + 1),
		fmt.Sprintf("%d-%d", lo, hi+1),
		fmt.Sprintf("%d-%d/%d", hi-2*st, hi+st, st),
		fmt.Sprintf("%d,%d", lo, hi+1),
		fmt.Sprintf("%d/%d", hi+1, st),
		fmt.Sprintf("%d-%d", lo-1, hi),
		fmt.Sprintf("%d,%d-%d", lo, hi-1, hi+1),
		fmt.Sprintf("%d-%d/%d", lo, hi+1, hi),
	}
	toks[i] = forms[r.Intn(len(forms))]
	if i == 3 {
		toks[5] = "?"
	}
	if i == 5 {
		toks[3] = "?"
	}
	return strings.Join(toks, " ")
}

func runFixed(seed int64, from, to int, brute bool) {
	fmt.Fprintf(out, "Z\tutc\t0\n")
	seen := map[int]bool{0: true}
	for _, o := range fixedOffsets {
		if !seen[o] {
			seen[o] = true
			fmt.Fprintf(out, "Z\tfx%d\t%d\n", o, o)
		}
	}
	for i := from; i < to; i++ {
		r := rand.New(rand.NewSource(seed*1000003 + int64(i)))
		e := genExpr(r, false)
		ex := e.render(r)
		mutated := false
		if r.Intn(8) == 0 {
			// malformed stream: push one field across its documented bound in some syntactic position;
			// if the parser accepts it anyway, the trigger is evaluated like any other
			ex = crossBoundary(r, ex)
			mutated = true
		}
		off := fixedOffsets[r.Intn(len(fixedOffsets))]
		loc := time.UTC
		zid := "utc"
		if off != 0 {
			loc = time.FixedZone(fmt.Sprintf("fx%d", off), off)
			zid = fmt.Sprintf("fx%d", off)
		}
		tr, err := quartz.NewCronTriggerWithLoc(ex, loc)
		if err != nil {
			fmt.Fprintf(out, "P\t%d\t%s\t%v\n", i, ex, err)
			continue
		}
		ftoks := fieldTokens(quartz.VerifTriggerFields(tr))
		j := 0
		one := func(prev int64, class string) string {
			id := fmt.Sprintf("%d.%d", i, j)
			j++
			res := fire(tr, prev, fmt.Sprintf("%s\t%s\t%d", ex, loc, prev))
			oracle := "-"
			if mutated {
				class = "boundary-syntax:" + class
			}
			if brute && !mutated {
				// independent day-by-day search on the wall clock of the location
				w, ok := bruteNext(e, floorDiv(prev, 1000000000)+int64(off), 2262)
				oracle = "E"
				if ok {
					if t := w - int64(off); t <= 9223372036 {
						oracle = fmt.Sprintf("F%d", t*1000000000)
					}
				}
			}
			emitCase(id, zid, prev, res, ftoks, ex, loc.String(), class, oracle)
			if !mutated && strings.HasPrefix(res, "F") {
				// the meaning the generator rendered (its own value sets), independent of what the parser made of
				// the text: a fire time must satisfy the expression AS WRITTEN
				var ns int64
				fmt.Sscan(res[1:], &ns)
				if !e.matches(time.Unix(0, ns).In(loc)) {
					fmt.Fprintf(out, "G\t%s\t%s\t%s\t%d\t%s\t%s\n", id, strings.ReplaceAll(ex, "\t", "\\t"), loc.String(), prev, res, time.Unix(0, ns).In(loc).Format("Mon 2006-01-02T15:04:05"))
				}
			}
			return res
		}
		// schedule-independent placements
		for k := 0; k < 2; k++ {
			p, class := boundaryPrev(r, off)
			res := one(p, class)
			// placements relative to the schedule: just before, on, just after a fire time; chain
			for c := 0; c < 3 && strings.HasPrefix(res, "F"); c++ {
				var ns int64
				fmt.Sscan(res[1:], &ns)
				switch r.Intn(5) {
				case 0:
					one(ns-1, "fire-1ns")
				case 1:
					one(ns-1000000000, "fire-1s")
				case 2:
					if ns < maxNs-5 {
						one(ns+1+int64(r.Intn(2))*999999998, "fire+sub-second")
					}
				}
				res = one(ns, "chain")
			}
		}
		if r.Intn(8) == 0 {
			one(maxNs-int64(r.Intn(3))*int64(r.Int63n(4000000000000000)), "int64-limit")
		}
	}
}

// ---- zones ----
type ztab struct {
	name   string
	loc    *time.Location
	off0   int
	trans  []int64 // instants
	offs   []int
	deltas []int64 // distinct sizes of fall-backs (offset decreases) of this location
}

// isRepeat: some earlier instant shows the same wall clock reading as t (t is the later occurrence of a
// local time repeated by a fall-back). An earlier occurrence lies exactly one fall-back size before t.
func (z *ztab) isRepeat(t int64) bool {
	k := wallKey(time.Unix(t, 0).In(z.loc))
	for _, d := range z.deltas {
		if wallKey(time.Unix(t-d, 0).In(z.loc)) == k {
			return true
		}
	}
	return false
}

func buildZone(name string) (*ztab, error) {
	loc, err := time.LoadLocation(name)
	if err != nil {
		return nil, err
	}
	z := &ztab{name: name, loc: loc}
	t := time.Date(1960, 1, 1, 0, 0, 0, 0, time.UTC).In(loc)
	_, z.off0 = t.Zone()
	for n := 0; t.Year() < 2264 && n < 5000; n++ {
		_, end := t.ZoneBounds()
		if end.IsZero() {
			break
		}
		if !end.After(t) {
			// Go's tzset reports a period that ends before t on 31 December of leap years
			// (it takes every year to have 365 days); step over that day
			t = t.Add(24 * time.Hour)
			continue
		}
		_, o := end.Zone()
		before := z.off0
		if len(z.offs) > 0 {
			before = z.offs[len(z.offs)-1]
		}
		if d := int64(before - o); d > 0 {
			known := false
			for _, x := range z.deltas {
				known = known || x == d
			}
			if !known {
				z.deltas = append(z.deltas, d)
			}
		}
		z.trans = append(z.trans, end.Unix())
		z.offs = append(z.offs, o)
		t = end
	}
	return z, nil
}

func (z *ztab) line() string {
	var b strings.Builder
	fmt.Fprintf(&b, "Z\t%s\t%d", z.name, z.off0)
	for i := range z.trans {
		fmt.Fprintf(&b, "\t%d\t%d", z.trans[i], z.offs[i])
	}
	return b.String()
}

func wallKey(t time.Time) int64 {
	y, m, d := t.Date()
	h, mi, s := t.Clock()
	return time.Date(y, m, d, h, mi, s, 0, time.UTC).Unix()
}

// zoneOracle scans second by second: the implementation's answer `got` (0 = expired) must read a matching
// wall clock, and every matching instant it skipped must be the later occurrence of a repeated local time.
func zoneOracle(e *expr, z *ztab, prevSec int64, res string, horizon int64) string {
	loc := z.loc
	var got int64 = -1
	if strings.HasPrefix(res, "F") {
		var ns int64
		fmt.Sscan(res[1:], &ns)
		if ns%1000000000 != 0 {
			return "not-whole-second"
		}
		got = ns / 1000000000
		if got <= prevSec {
			return "not-after-prev"
		}
		if !e.matches(time.Unix(got, 0).In(loc)) {
			return "result-does-not-match-wall-clock"
		}
	} else if res != "E" {
		return "error:" + res
	}
	end := prevSec + horizon
	if got >= 0 && got < end {
		end = got
	}
	for t := prevSec + 1; t < end; t++ {
		if e.matches(time.Unix(t, 0).In(loc)) && !z.isRepeat(t) {
			if got < 0 {
				return fmt.Sprintf("false-expiry: %d matches", t)
			}
			return fmt.Sprintf("skipped-non-repeated: %d matches before %d", t, got)
		}
	}
	return "ok"
}

func runZone(seed int64, from, to int, names []string) {
	var zs []*ztab
	for _, n := range names {
		z, err := buildZone(n)
		if err != nil {
			fmt.Fprintf(out, "L\t%s\t%v\n", n, err)
			continue
		}
		zs = append(zs, z)
		fmt.Fprintln(out, z.line())
	}
	if len(zs) == 0 {
		return
	}
	for i := from; i < to; i++ {
		r := rand.New(rand.NewSource(seed*1000003 + int64(i)))
		z := zs[i%len(zs)]
		e := genExpr(r, true)
		e.year = nil
		yearEnd := 0
		if r.Intn(8) == 0 {
			// a restricted year field and a prev around the end of its last year: the year must be read on the
			// LOCAL clock (31 December local is already 1 January in UTC west of Greenwich, and vice versa)
			yearEnd = 1971 + r.Intn(229)
			e.year = []int{yearEnd}
			if r.Intn(2) == 0 {
				e.year = []int{yearEnd - 1, yearEnd}
			}
		}
		if r.Intn(10) == 0 {
			// dense schedules: every second / every few seconds all day, so that a gap or a skipped day
			// removes thousands of consecutive matching readings
			e.sec, e.min, e.hour, e.month = nil, nil, nil, nil
			if r.Intn(2) == 0 {
				st := []int{5, 7, 20}[r.Intn(3)]
				for v := 0; v < 60; v += st {
					e.sec = append(e.sec, v)
				}
			}
			e.day = dayRule{}
		}
		ex := e.render(r)
		tr, err := quartz.NewCronTriggerWithLoc(ex, z.loc)
		if err != nil {
			fmt.Fprintf(out, "P\t%d\t%s\t%v\n", i, ex, err)
			continue
		}
		ftoks := fieldTokens(quartz.VerifTriggerFields(tr))
		var prev int64
		var twinDelta int64
		class := "far"
		// transitions inside 1970..2200
		var cand []int
		for k, t := range z.trans {
			if t > 0 && t < 7258118400 {
				cand = append(cand, k)
				before := z.off0
				if k > 0 {
					before = z.offs[k-1]
				}
				if d := z.offs[k] - before; d != 3600 && d != -3600 && d != 0 {
					// unusual shifts (30 min, 2 h, 3 h, a whole day) are rare in the tables: weight them up
					for w := 0; w < 25; w++ {
						cand = append(cand, k)
					}
				}
			}
		}
		if len(cand) > 0 && r.Intn(8) != 0 {
			k := cand[r.Intn(len(cand))]
			tr0 := z.trans[k]
			before := z.off0
			if k > 0 {
				before = z.offs[k-1]
			}
			delta := int64(z.offs[k] - before)
			if delta < 0 {
				twinDelta = -delta
			}
			switch r.Intn(6) {
			case 0:
				prev = tr0 - 86400 + r.Int63n(2*86400)
				class = "within-a-day"
			case 1:
				prev = tr0 - 1 - r.Int63n(3)
				class = "just-before"
			case 2:
				prev = tr0 + r.Int63n(3)
				class = "just-after"
			case 3: // inside the first pass of a repeated hour / before a gap
				if delta < 0 {
					prev = tr0 + delta + r.Int63n(-delta)
					class = "first-pass"
				} else {
					prev = tr0 - 1 - r.Int63n(delta+1)
					class = "before-gap"
				}
			case 4: // inside the second pass / right after the gap
				if delta < 0 {
					prev = tr0 + r.Int63n(-delta)
					class = "second-pass"
				} else {
					prev = tr0 + r.Int63n(delta+1)
					class = "after-gap"
				}
			default:
				prev = tr0 - 4*3600 + r.Int63n(6*3600)
				class = "hours-around"
			}
		} else {
			prev = r.Int63n(7258118400)
		}
		if yearEnd != 0 {
			prev = time.Date(yearEnd, 12, 31, 0, 0, 0, 0, time.UTC).Unix() + r.Int63n(60*3600) - 6*3600
			class = "year-end"
			twinDelta = 0
		}
		if prev < 0 {
			prev = 0
		}
		pns := prev*1000000000 + int64(r.Intn(2))*int64(r.Intn(1000000000))
		// twin call on the SAME trigger object: the other instant of a repeated hour that shows the same
		// wall clock reading (one fall-back size later / earlier), asked right after the first one, so that
		// any state a trigger keeps between calls (a memo keyed by the reading) is exercised
		twin := int64(-1)
		if twinDelta != 0 && (class == "first-pass" || class == "second-pass") {
			if class == "first-pass" {
				twin = pns + twinDelta*1000000000
			} else if pns-twinDelta*1000000000 >= 0 {
				twin = pns - twinDelta*1000000000
			}
		}
		for c := 0; c < 4; c++ {
			id := fmt.Sprintf("%d.%d", i, c)
			res := fire(tr, pns, fmt.Sprintf("%s\t%s\t%d", ex, z.name, pns))
			horizon := int64(3 * 86400)
			oracle := zoneOracle(e, z, pns/1000000000, res, horizon)
			if res == "E" && oracle == "ok" {
				oracle = "ok-expired-within-horizon"
			}
			emitCase(id, z.name, pns, res, ftoks, ex, z.name, class, oracle)
			if c == 0 && twin >= 0 {
				tres := fire(tr, twin, fmt.Sprintf("%s\t%s\t%d", ex, z.name, twin))
				toracle := zoneOracle(e, z, twin/1000000000, tres, horizon)
				if tres == "E" && toracle == "ok" {
					toracle = "ok-expired-within-horizon"
				}
				emitCase(fmt.Sprintf("%d.t", i), z.name, twin, tres, ftoks, ex, z.name, fmt.Sprintf("twin-of-%s@%d", class, pns), toracle)
			}
			if !strings.HasPrefix(res, "F") {
				break
			}
			fmt.Sscan(res[1:], &pns)
			class = "chain"
		}
	}
}

// ---- calendar helpers and day targets ----
func runCal(ystep int) {
	id := 0
	for y := 1969; y <= 2263; y++ {
		leap := y%4 == 0 && (y%100 != 0 || y%400 == 0)
		if !(leap || (y-1969)%ystep == 0 || y >= 2260 || y <= 1972) {
			continue
		}
		for m := 1; m <= 12; m++ {
			last := quartz.VerifLastDayOfMonth(y, m)
			for d := 1; d <= last; d++ {
				fmt.Fprintf(out, "D\t%d\t%d\t%d\t%d\t%d\t%d\t%d\n", id, y, m, d, last, quartz.VerifWeekday(y, m, d), quartz.VerifClosestWeekday(y, m, d))
				id++
			}
		}
	}
}

func runDayN(ystep int) {
	var exprs []string
	exprs = append(exprs, "0 0 0 L * ?", "0 0 0 LW * ?")
	for k := 1; k <= 31; k++ {
		exprs = append(exprs, fmt.Sprintf("0 0 0 L-%d * ?", k), fmt.Sprintf("0 0 0 %dW * ?", k))
	}
	for w := 1; w <= 7; w++ {
		exprs = append(exprs, fmt.Sprintf("0 0 0 ? * %dL", w))
		for k := 1; k <= 5; k++ {
			exprs = append(exprs, fmt.Sprintf("0 0 0 ? * %d#%d", w, k))
		}
	}
	id := 0
	for _, ex := range exprs {
		tr, err := quartz.NewCronTrigger(ex)
		if err != nil {
			fmt.Fprintf(out, "P\t%d\t%s\t%v\n", id, ex, err)
			continue
		}
		ftoks := fieldTokens(quartz.VerifTriggerFields(tr))
		for y := 1969; y <= 2263; y++ {
			leap := y%4 == 0 && (y%100 != 0 || y%400 == 0)
			if !(leap || (y-1969)%ystep == 0 || y >= 2260 || y <= 1972) {
				continue
			}
			for m := 1; m <= 12; m++ {
				day, ok := quartz.VerifDayN(tr, y, m)
				b := 0
				if ok {
					b = 1
				}
				fmt.Fprintf(out, "N\t%d\t%d\t%d\t%s\t%d\t%d\t%s\n", id, y, m, ftoks, day, b, ex)
				id++
			}
		}
	}
}

// ---- purity ----
func runPure(seed int64, n int) {
	bad := 0
	total := 0
	for i := 0; i < n; i++ {
		r := rand.New(rand.NewSource(seed*7919 + int64(i)))
		e := genExpr(r, r.Intn(2) == 0)
		ex := e.render(r)
		loc := time.UTC
		if r.Intn(2) == 0 {
			if l, err := time.LoadLocation([]string{"America/New_York", "Europe/Berlin", "Australia/Lord_Howe", "Asia/Kolkata"}[r.Intn(4)]); err == nil {
				loc = l
			}
		}
		tr, err := quartz.NewCronTriggerWithLoc(ex, loc)
		if err != nil {
			continue
		}
		prevs := make([]int64, 24)
		for k := range prevs {
			prevs[k], _ = boundaryPrev(r, 0)
		}
		want := make([]string, len(prevs))
		before := fmt.Sprint(quartz.VerifTriggerFields(tr), tr.Description())
		// the reference answers come from a FRESH trigger per prev (same expression and location), so that
		// state kept between calls on one trigger (memos, trimmed fields, cached zone periods) shows up as a
		// difference whatever the order of the calls
		for k, p := range prevs {
			ft, ferr := quartz.NewCronTriggerWithLoc(ex, loc)
			if ferr != nil {
				want[k] = "X" + ferr.Error()
				continue
			}
			want[k] = fire(ft, p, ex)
		}
		var mism atomic.Int64
		// sequential calls on the one trigger, first in generation order, then backwards
		for k, p := range prevs {
			if fire(tr, p, ex) != want[k] {
				mism.Add(1)
			}
		}
		for k := len(prevs) - 1; k >= 0; k-- {
			if fire(tr, prevs[k], ex) != want[k] {
				mism.Add(1)
			}
		}
		var wg sync.WaitGroup
		for g := 0; g < 16; g++ {
			wg.Add(1)
			go func(g int) {
				defer wg.Done()
				rr := rand.New(rand.NewSource(int64(g)))
				for _, k := range rr.Perm(len(prevs)) {
					ns, err := tr.NextFireTime(prevs[k])
					got := fmt.Sprintf("F%d", ns)
					if err != nil {
						got = "E"
						if !errors.Is(err, quartz.ErrTriggerExpired) {
							got = "X" + err.Error()
						}
					}
					if got != want[k] {
						mism.Add(1)
					}
				}
			}(g)
		}
		wg.Wait()
		// repeated sequential calls give the same answers; the trigger is unchanged
		for k, p := range prevs {
			if fire(tr, p, ex) != want[k] {
				mism.Add(1)
			}
		}
		after := fmt.Sprint(quartz.VerifTriggerFields(tr), tr.Description())
		total += len(prevs) * 20
		if mism.Load() != 0 || before != after {
			bad++
			fmt.Fprintf(out, "U\t%d\t%s\t%s\tmismatches=%d\tchanged=%v\n", i, ex, loc, mism.Load(), before != after)
		}
	}
	fmt.Fprintf(out, "S\tpure\ttriggers=%d\tcalls=%d\tbad=%d\n", n, total, bad)
}

// exprFromFields rebuilds the harness's own expression form from the parsed fields (for replays).
func exprFromFields(f quartz.VerifFields) *expr {
	set := func(v []int) []int {
		if len(v) == 0 {
			return nil
		}
		return v
	}
	e := &expr{sec: set(f.Values[0]), min: set(f.Values[1]), hour: set(f.Values[2]), month: set(f.Values[4]), year: set(f.Values[6])}
	switch {
	case len(f.Values[5]) > 0 && f.N[5] == 0:
		e.day = dayRule{kind: 6, set: f.Values[5]}
	case len(f.Values[5]) > 0 && f.N[5] < 0:
		e.day = dayRule{kind: 7, n: f.Values[5][0]}
	case len(f.Values[5]) > 0:
		e.day = dayRule{kind: 8, n: f.Values[5][0], k: f.N[5]}
	case f.N[3] == 1:
		e.day = dayRule{kind: 2}
	case f.N[3] < 0:
		e.day = dayRule{kind: 3, n: -f.N[3]}
	case f.N[3] == 3:
		e.day = dayRule{kind: 5}
	case f.N[3] == 2:
		e.day = dayRule{kind: 4, n: f.Values[3][0]}
	case len(f.Values[3]) > 0:
		e.day = dayRule{kind: 1, set: f.Values[3]}
	}
	return e
}

// runOne replays a single recorded case (and a chain of three from it).
func runOne(ex, locName string, prev int64, before int64, hasBefore bool) {
	loc := time.UTC
	zid := "utc"
	var off int
	var zt *ztab
	if n, _ := fmt.Sscanf(locName, "fx%d", &off); n == 1 {
		loc = time.FixedZone(locName, off)
		zid = locName
		fmt.Fprintf(out, "Z\t%s\t%d\n", zid, off)
	} else if locName != "UTC" && locName != "" {
		z, err := buildZone(locName)
		if err != nil {
			fmt.Fprintf(out, "L\t%s\t%v\n", locName, err)
			return
		}
		loc = z.loc
		zid = z.name
		zt = z
		fmt.Fprintln(out, z.line())
	} else {
		fmt.Fprintf(out, "Z\tutc\t0\n")
	}
	tr, err := quartz.NewCronTriggerWithLoc(ex, loc)
	if err != nil {
		fmt.Fprintf(out, "P\t0\t%s\t%v\n", ex, err)
		return
	}
	ftoks := fieldTokens(quartz.VerifTriggerFields(tr))
	if hasBefore {
		// the recorded case was the second call on one trigger object: repeat the first one
		fire(tr, before, fmt.Sprintf("%s\t%s\t%d", ex, locName, before))
	}
	for c := 0; c < 3; c++ {
		res := fire(tr, prev, fmt.Sprintf("%s\t%s\t%d", ex, locName, prev))
		oracle := "-"
		if zt != nil {
			oracle = zoneOracle(exprFromFields(quartz.VerifTriggerFields(tr)), zt, prev/1000000000, res, 3*86400)
		}
		emitCase(fmt.Sprintf("0.%d", c), zid, prev, res, ftoks, ex, locName, "replay", oracle)
		if !strings.HasPrefix(res, "F") {
			break
		}
		fmt.Sscan(res[1:], &prev)
	}
}

func main() {
	if len(os.Args) < 2 {
		fmt.Fprintln(os.Stderr, "usage: cronh fixed|zone|cal|dayn|pure [flags]")
		os.Exit(2)
	}
	fs := flag.NewFlagSet(os.Args[1], flag.ExitOnError)
	seed := fs.Int64("seed", 1, "")
	from := fs.Int("from", 0, "")
	to := fs.Int("to", 100, "")
	n := fs.Int("n", 100, "")
	zones := fs.String("zones", "", "")
	ystep := fs.Int("ystep", 1, "")
	brute := fs.Bool("brute", false, "")
	oneExpr := fs.String("expr", "", "")
	oneLoc := fs.String("loc", "UTC", "")
	onePrev := fs.Int64("prev", 0, "")
	oneBefore := fs.Int64("before", 0, "prev of a call made on the same trigger before the replayed one")
	oneHasBefore := fs.Bool("has-before", false, "")
	_ = fs.Parse(os.Args[2:])
	go watchdog()
	defer out.Flush()
	switch os.Args[1] {
	case "fixed":
		runFixed(*seed, *from, *to, *brute)
	case "zone":
		runZone(*seed, *from, *to, strings.Split(*zones, ","))
	case "cal":
		runCal(*ystep)
	case "dayn":
		runDayN(*ystep)
	case "pure":
		runPure(*seed, *n)
	case "one":
		runOne(*oneExpr, *oneLoc, *onePrev, *oneBefore, *oneHasBefore)
	default:
		os.Exit(2)
	}
}
