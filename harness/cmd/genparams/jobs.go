package main

import (
	"go/ast"
	"go/token"
	"strings"
)

// Section "jobs": job/job_status.go, job/function_job.go, job/shell_job.go,
// job/curl_job.go, job/isolated_job.go  (properties C16, C17).
//
// What is copied: the Status constants; for each Execute method the branch
// test on the error / response, the status constant assigned in either branch,
// where the fields are assigned relative to mtx.Lock/Unlock, where the outcome
// is computed relative to the lock, how often and where the callback is
// invoked, what is returned; CurlJob's status-code comparisons (operators and
// limits), the body close and the re-binding of the request to ctx; the
// isolated job's Swap(true) / deferred Store(false) shape.
// Anything that does not have one of the shapes understood here => exit 1.
func init() { sections["jobs"] = genJobs }

// net/http status constants (standard library).
var httpStatus = map[string]int64{
	"StatusContinue": 100, "StatusSwitchingProtocols": 101, "StatusProcessing": 102, "StatusEarlyHints": 103,
	"StatusOK": 200, "StatusCreated": 201, "StatusAccepted": 202, "StatusNonAuthoritativeInfo": 203,
	"StatusNoContent": 204, "StatusResetContent": 205, "StatusPartialContent": 206, "StatusMultiStatus": 207,
	"StatusAlreadyReported": 208, "StatusIMUsed": 226,
	"StatusMultipleChoices": 300, "StatusMovedPermanently": 301, "StatusFound": 302, "StatusSeeOther": 303,
	"StatusNotModified": 304, "StatusUseProxy": 305, "StatusTemporaryRedirect": 307, "StatusPermanentRedirect": 308,
	"StatusBadRequest": 400, "StatusUnauthorized": 401, "StatusPaymentRequired": 402, "StatusForbidden": 403,
	"StatusNotFound": 404, "StatusMethodNotAllowed": 405, "StatusNotAcceptable": 406, "StatusProxyAuthRequired": 407,
	"StatusRequestTimeout": 408, "StatusConflict": 409, "StatusGone": 410, "StatusLengthRequired": 411,
	"StatusPreconditionFailed": 412, "StatusRequestEntityTooLarge": 413, "StatusRequestURITooLong": 414,
	"StatusUnsupportedMediaType": 415, "StatusRequestedRangeNotSatisfiable": 416, "StatusExpectationFailed": 417,
	"StatusTeapot": 418, "StatusMisdirectedRequest": 421, "StatusUnprocessableEntity": 422, "StatusLocked": 423,
	"StatusFailedDependency": 424, "StatusTooEarly": 425, "StatusUpgradeRequired": 426, "StatusPreconditionRequired": 428,
	"StatusTooManyRequests": 429, "StatusRequestHeaderFieldsTooLarge": 431, "StatusUnavailableForLegalReasons": 451,
	"StatusInternalServerError": 500, "StatusNotImplemented": 501, "StatusBadGateway": 502, "StatusServiceUnavailable": 503,
	"StatusGatewayTimeout": 504, "StatusHTTPVersionNotSupported": 505, "StatusVariantAlsoNegotiates": 506,
	"StatusInsufficientStorage": 507, "StatusLoopDetected": 508, "StatusNotExtended": 510,
	"StatusNetworkAuthenticationRequired": 511,
}

// statusConsts evaluates the const block of job_status.go (iota or literals).
func statusConsts(f *file) map[string]int64 {
	res := map[string]int64{}
	for _, d := range f.f.Decls {
		g, ok := d.(*ast.GenDecl)
		if !ok || g.Tok != token.CONST {
			continue
		}
		var lastExpr ast.Expr
		for i, s := range g.Specs {
			vs := s.(*ast.ValueSpec)
			if len(vs.Names) != 1 {
				die("%s: const spec with several names", f.path)
			}
			if len(vs.Values) == 1 {
				lastExpr = vs.Values[0]
			} else if len(vs.Values) != 0 || lastExpr == nil {
				die("%s: unexpected const spec %s", f.path, vs.Names[0].Name)
			}
			res[vs.Names[0].Name] = evalIota(f, lastExpr, int64(i))
		}
	}
	for _, n := range []string{"StatusNA", "StatusOK", "StatusFailure"} {
		if _, ok := res[n]; !ok {
			die("%s: constant %s not found", f.path, n)
		}
	}
	return res
}

func evalIota(f *file, e ast.Expr, iota int64) int64 {
	switch x := unparen(e).(type) {
	case *ast.Ident:
		if x.Name == "iota" {
			return iota
		}
	case *ast.BasicLit:
		return f.intOf(x)
	case *ast.BinaryExpr:
		a, b := evalIota(f, x.X, iota), evalIota(f, x.Y, iota)
		switch x.Op {
		case token.ADD:
			return a + b
		case token.SUB:
			return a - b
		case token.MUL:
			return a * b
		case token.SHL:
			return a << uint(b)
		}
	case *ast.CallExpr:
		if len(x.Args) == 1 {
			return evalIota(f, x.Args[0], iota)
		}
	}
	die("%s: cannot evaluate constant expression at %s", f.path, f.fset.Position(e.Pos()))
	return 0
}

// execInfo: positions of the structural elements of an Execute body.
type execInfo struct {
	f           *file
	recv        string // receiver name
	fd          *ast.FuncDecl
	lockPos     []token.Pos
	unlockPos   []token.Pos
	deferUnlock bool
	assigns     []fieldAssign // assignments to receiver fields, source order
	ret         *ast.ReturnStmt
}

type fieldAssign struct {
	field string
	rhs   ast.Expr      // nil for a tuple assignment from one call
	call  *ast.CallExpr // the call for tuple assignments x.a, b = call()
	idx   int
	pos   token.Pos
}

func recvName(fd *ast.FuncDecl) string {
	if fd.Recv == nil || len(fd.Recv.List) != 1 || len(fd.Recv.List[0].Names) != 1 {
		die("%s: unexpected receiver", fd.Name.Name)
	}
	return fd.Recv.List[0].Names[0].Name
}

func scanExec(f *file, typ string) *execInfo {
	fd := f.method(typ, "Execute")
	in := &execInfo{f: f, fd: fd, recv: recvName(fd)}
	if fd.Type.Results == nil || len(fd.Type.Results.List) != 1 || callName(fd.Type.Results.List[0].Type) != "error" {
		die("%s.Execute: does not return exactly one error", typ)
	}
	nret := 0
	ast.Inspect(fd.Body, func(n ast.Node) bool {
		switch x := n.(type) {
		case *ast.FuncLit:
			die("%s.Execute: function literal in the body (shape not understood)", typ)
		case *ast.GoStmt:
			die("%s.Execute: go statement in the body (shape not understood)", typ)
		case *ast.DeferStmt:
			if callName(x.Call.Fun) == in.recv+".mtx.Unlock" {
				in.deferUnlock = true
			}
		case *ast.CallExpr:
			switch callName(x.Fun) {
			case in.recv + ".mtx.Lock":
				in.lockPos = append(in.lockPos, x.Pos())
			case in.recv + ".mtx.Unlock":
				in.unlockPos = append(in.unlockPos, x.Pos())
			case in.recv + ".mtx.RLock", in.recv + ".mtx.RUnlock", in.recv + ".mtx.TryLock":
				die("%s.Execute: unexpected lock operation %s", typ, callName(x.Fun))
			}
		case *ast.AssignStmt:
			for i, l := range x.Lhs {
				name := callName(l)
				if strings.HasPrefix(name, in.recv+".") {
					fa := fieldAssign{field: strings.TrimPrefix(name, in.recv+"."), idx: i, pos: x.Pos()}
					if len(x.Rhs) == len(x.Lhs) {
						fa.rhs = x.Rhs[i]
					} else if len(x.Rhs) == 1 {
						c, ok := x.Rhs[0].(*ast.CallExpr)
						if !ok {
							die("%s.Execute: tuple assignment not from a call", typ)
						}
						fa.call = c
					}
					if x.Tok != token.ASSIGN {
						die("%s.Execute: compound assignment to a field", typ)
					}
					in.assigns = append(in.assigns, fa)
				}
			}
		case *ast.IncDecStmt:
			if strings.HasPrefix(callName(x.X), in.recv+".") {
				die("%s.Execute: inc/dec of a field", typ)
			}
		case *ast.ReturnStmt:
			nret++
			in.ret = x
		}
		return true
	})
	if nret != 1 {
		die("%s.Execute: expected exactly one return statement, found %d", typ, nret)
	}
	last := fd.Body.List[len(fd.Body.List)-1]
	if last != ast.Stmt(in.ret) {
		die("%s.Execute: the return is not the last statement", typ)
	}
	if len(in.lockPos) != 1 || len(in.unlockPos) != 1 || in.deferUnlock {
		die("%s.Execute: expected exactly one mtx.Lock() and one (non-deferred) mtx.Unlock(); found %d/%d deferred=%v",
			typ, len(in.lockPos), len(in.unlockPos), in.deferUnlock)
	}
	if in.lockPos[0] > in.unlockPos[0] {
		die("%s.Execute: Unlock before Lock", typ)
	}
	// Lock and Unlock must be top-level statements of the body (not conditional)
	top := 0
	for _, s := range fd.Body.List {
		if es, ok := s.(*ast.ExprStmt); ok {
			if c, ok := es.X.(*ast.CallExpr); ok {
				n := callName(c.Fun)
				if n == in.recv+".mtx.Lock" || n == in.recv+".mtx.Unlock" {
					top++
				}
			}
		}
	}
	if top != 2 {
		die("%s.Execute: Lock/Unlock are not unconditional top-level statements", typ)
	}
	return in
}

func (in *execInfo) inLock(p token.Pos) bool { return p > in.lockPos[0] && p < in.unlockPos[0] }

func (in *execInfo) allAssignsLocked() bool {
	for _, a := range in.assigns {
		if !in.inLock(a.pos) {
			return false
		}
	}
	return len(in.assigns) > 0
}

// nilTest recognises `x != nil` / `x == nil` / mirrored; returns the tested name and the operator.
func nilTest(e ast.Expr) (string, token.Token, bool) {
	be, ok := unparen(e).(*ast.BinaryExpr)
	if !ok || (be.Op != token.NEQ && be.Op != token.EQL) {
		return "", 0, false
	}
	l, r := callName(be.X), callName(be.Y)
	if r == "nil" {
		return l, be.Op, true
	}
	if l == "nil" {
		return r, be.Op, true
	}
	return "", 0, false
}

// topIf finds the single top-level if/else statement whose both branches assign recv.jobStatus.
func (in *execInfo) statusIf(typ string) *ast.IfStmt {
	var found *ast.IfStmt
	for _, s := range in.fd.Body.List {
		ifs, ok := s.(*ast.IfStmt)
		if !ok {
			continue
		}
		has := false
		ast.Inspect(ifs, func(n ast.Node) bool {
			if a, ok := n.(*ast.AssignStmt); ok {
				for _, l := range a.Lhs {
					if callName(l) == in.recv+".jobStatus" {
						has = true
					}
				}
			}
			return true
		})
		if has {
			if found != nil {
				die("%s.Execute: more than one statement assigns jobStatus", typ)
			}
			found = ifs
		}
	}
	if found == nil || found.Init != nil || found.Else == nil {
		die("%s.Execute: expected `if cond { jobStatus = A } else { jobStatus = B }`", typ)
	}
	if _, ok := found.Else.(*ast.BlockStmt); !ok {
		die("%s.Execute: else-if chain not understood", typ)
	}
	// every jobStatus assignment of the method must be inside this statement
	for _, a := range in.assigns {
		if a.field == "jobStatus" && !(a.pos > found.Pos() && a.pos < found.End()) {
			die("%s.Execute: jobStatus assigned outside the if/else", typ)
		}
	}
	return found
}

// branchAssigns returns field -> rhs for the plain statements of a branch (no nesting allowed).
func (in *execInfo) branchAssigns(typ string, b *ast.BlockStmt) (map[string]ast.Expr, map[string]bool) {
	m := map[string]ast.Expr{}
	zeroVars := map[string]bool{}
	for _, s := range b.List {
		switch x := s.(type) {
		case *ast.AssignStmt:
			if len(x.Lhs) != len(x.Rhs) {
				die("%s.Execute: unexpected tuple assignment in a status branch", typ)
			}
			for i, l := range x.Lhs {
				n := callName(l)
				if !strings.HasPrefix(n, in.recv+".") {
					die("%s.Execute: unexpected assignment to %s in a status branch", typ, n)
				}
				fld := strings.TrimPrefix(n, in.recv+".")
				if _, dup := m[fld]; dup {
					die("%s.Execute: field %s assigned twice in one branch", typ, fld)
				}
				m[fld] = x.Rhs[i]
			}
		case *ast.DeclStmt: // var zero R
			g, ok := x.Decl.(*ast.GenDecl)
			if !ok || g.Tok != token.VAR {
				die("%s.Execute: unexpected declaration in a status branch", typ)
			}
			for _, sp := range g.Specs {
				vs := sp.(*ast.ValueSpec)
				if len(vs.Values) != 0 {
					die("%s.Execute: initialised variable in a status branch", typ)
				}
				for _, n := range vs.Names {
					zeroVars[n.Name] = true
				}
			}
		default:
			die("%s.Execute: unexpected statement in a status branch", typ)
		}
	}
	return m, zeroVars
}

func statusOf(typ string, st map[string]int64, e ast.Expr) int64 {
	if e == nil {
		die("%s.Execute: a branch does not assign jobStatus", typ)
	}
	id, ok := unparen(e).(*ast.Ident)
	if !ok {
		die("%s.Execute: jobStatus is not assigned a Status constant", typ)
	}
	v, ok := st[id.Name]
	if !ok {
		die("%s.Execute: unknown Status constant %s", typ, id.Name)
	}
	return v
}

// callbackInfo: number of calls of recv.callback, whether all of them are after Unlock,
// guarded by `recv.callback != nil`, and passed (ctx, recv).
func (in *execInfo) callbackInfo(typ string) (n int, afterUnlock, guarded bool) {
	afterUnlock, guarded = true, true
	var guardIfs []*ast.IfStmt
	ast.Inspect(in.fd.Body, func(nd ast.Node) bool {
		switch x := nd.(type) {
		case *ast.IfStmt:
			if nm, op, ok := nilTest(x.Cond); ok && nm == in.recv+".callback" && op == token.NEQ && x.Init == nil {
				guardIfs = append(guardIfs, x)
			}
		case *ast.ForStmt, *ast.RangeStmt:
			die("%s.Execute: loop in the body (shape not understood)", typ)
		case *ast.CallExpr:
			if callName(x.Fun) == in.recv+".callback" {
				n++
				if len(x.Args) != 2 || callName(x.Args[0]) != "ctx" || callName(x.Args[1]) != in.recv {
					die("%s.Execute: callback is not invoked as callback(ctx, %s)", typ, in.recv)
				}
				if x.Pos() < in.unlockPos[0] {
					afterUnlock = false
				}
				g := false
				for _, ifs := range guardIfs {
					if x.Pos() > ifs.Body.Pos() && x.End() < ifs.Body.End() {
						g = true
					}
				}
				if !g {
					guarded = false
				}
			}
		}
		return true
	})
	// the guards must be top-level statements (unconditional apart from the nil test)
	for _, ifs := range guardIfs {
		top := false
		for _, s := range in.fd.Body.List {
			if s == ast.Stmt(ifs) {
				top = true
			}
		}
		if !top || ifs.Else != nil {
			die("%s.Execute: callback guard is nested or has an else", typ)
		}
	}
	return
}

func genJobs(o *out) {
	st := statusConsts(parse("job/job_status.go"))
	o.line("From Coq Require Import ZArith List.")
	o.line("Import ListNotations.")
	o.line("Open Scope Z_scope.")
	o.line("")
	o.line("Inductive cmp_op := OpGe | OpGt | OpLe | OpLt | OpEq | OpNe.")
	o.line("Inductive val_src := VZero | VResult.   (* what FunctionJob stores in result *)")
	o.line("Inductive err_src := ENil | EErr.       (* what FunctionJob stores in err *)")
	o.line("")
	o.line("(* job/job_status.go *)")
	o.line("Definition go_StatusNA : Z := %s.", coqZ(st["StatusNA"]))
	o.line("Definition go_StatusOK : Z := %s.", coqZ(st["StatusOK"]))
	o.line("Definition go_StatusFailure : Z := %s.", coqZ(st["StatusFailure"]))
	o.line("")
	genFunctionJob(o, st)
	genShellJob(o, st)
	genCurlJob(o, st)
	genIsolated(o)
}

// ---------------------------------------------------------------- FunctionJob
func genFunctionJob(o *out, st map[string]int64) {
	const typ = "FunctionJob"
	f := parse("job/function_job.go")
	in := scanExec(f, typ)
	// result, err := f.function(ctx)
	var resVar, errVar string
	var callPos token.Pos
	for _, s := range in.fd.Body.List {
		as, ok := s.(*ast.AssignStmt)
		if !ok || len(as.Rhs) != 1 {
			continue
		}
		c, ok := as.Rhs[0].(*ast.CallExpr)
		if ok && callName(c.Fun) == in.recv+".function" {
			if len(as.Lhs) != 2 || as.Tok != token.DEFINE || len(c.Args) != 1 || callName(c.Args[0]) != "ctx" {
				die("%s.Execute: expected `result, err := %s.function(ctx)`", typ, in.recv)
			}
			if callPos != 0 {
				die("%s.Execute: the function is called more than once", typ)
			}
			resVar, errVar, callPos = callName(as.Lhs[0]), callName(as.Lhs[1]), as.Pos()
		}
	}
	if callPos == 0 {
		die("%s.Execute: call of %s.function(ctx) not found as a top-level statement", typ, in.recv)
	}
	ncalls := 0
	ast.Inspect(in.fd.Body, func(n ast.Node) bool {
		if c, ok := n.(*ast.CallExpr); ok && callName(c.Fun) == in.recv+".function" {
			ncalls++
		}
		return true
	})
	if ncalls != 1 {
		die("%s.Execute: the function is called %d times", typ, ncalls)
	}
	ifs := in.statusIf(typ)
	nm, op, ok := nilTest(ifs.Cond)
	if !ok || nm != errVar {
		die("%s.Execute: the status test is not `%s != nil` / `%s == nil`", typ, errVar, errVar)
	}
	branch := func(b *ast.BlockStmt) (int64, string, string) {
		m, zeros := in.branchAssigns(typ, b)
		if len(m) != 3 {
			die("%s.Execute: a branch does not assign exactly jobStatus, result, err", typ)
		}
		sv := statusOf(typ, st, m["jobStatus"])
		var rs, es string
		switch r := callName(m["result"]); {
		case m["result"] == nil:
			die("%s.Execute: a branch does not assign result", typ)
		case zeros[r]:
			rs = "VZero"
		case r == resVar:
			rs = "VResult"
		default:
			die("%s.Execute: result assigned from %s", typ, r)
		}
		switch e := callName(m["err"]); {
		case m["err"] == nil:
			die("%s.Execute: a branch does not assign err", typ)
		case e == "nil":
			es = "ENil"
		case e == errVar:
			es = "EErr"
		default:
			die("%s.Execute: err assigned from %s", typ, e)
		}
		return sv, rs, es
	}
	ts, tr, te := branch(ifs.Body)
	es, er, ee := branch(ifs.Else.(*ast.BlockStmt))
	if len(in.ret.Results) != 1 {
		die("%s.Execute: unexpected return", typ)
	}
	o.line("(* job/function_job.go: FunctionJob.Execute *)")
	o.line("(* if err <op> nil { then } else { else }: (status, result source, err source) *)")
	o.line("Definition fn_cond_op : cmp_op := %s.", cmpOp(op))
	o.line("Definition fn_then : Z * val_src * err_src := (%s, %s, %s).", coqZ(ts), tr, te)
	o.line("Definition fn_else : Z * val_src * err_src := (%s, %s, %s).", coqZ(es), er, ee)
	o.line("(* the function is called before mtx.Lock(); all field assignments lie between Lock and Unlock *)")
	o.line("Definition fn_call_before_lock : bool := %s.", coqBool(callPos < in.lockPos[0]))
	o.line("Definition fn_commit_locked : bool := %s.", coqBool(in.allAssignsLocked() && in.inLock(ifs.Pos())))
	o.line("Definition fn_returns_call_err : bool := %s.", coqBool(callName(in.ret.Results[0]) == errVar))
	o.line("")
}

// ---------------------------------------------------------------- ShellJob
func genShellJob(o *out, st map[string]int64) {
	const typ = "ShellJob"
	f := parse("job/shell_job.go")
	in := scanExec(f, typ)
	r := in.recv
	var cmdVar, errVar string
	var runPos token.Pos
	usesCtx, dashC := false, false
	bufOut, bufErr := "", ""
	for _, s := range in.fd.Body.List {
		as, ok := s.(*ast.AssignStmt)
		if !ok || len(as.Rhs) != 1 || len(as.Lhs) != 1 {
			continue
		}
		lhs := callName(as.Lhs[0])
		if c, ok := as.Rhs[0].(*ast.CallExpr); ok {
			switch {
			case callName(c.Fun) == "exec.CommandContext":
				if cmdVar != "" || as.Tok != token.DEFINE {
					die("%s.Execute: more than one command is built", typ)
				}
				cmdVar = lhs
				if len(c.Args) == 4 && callName(c.Args[0]) == "ctx" {
					usesCtx = true
				}
				if len(c.Args) == 4 {
					if bl, ok := c.Args[2].(*ast.BasicLit); ok && bl.Value == `"-c"` && callName(c.Args[3]) == r+".cmd" {
						dashC = true
					}
				}
			case callName(c.Fun) == "exec.Command":
				if cmdVar != "" || as.Tok != token.DEFINE {
					die("%s.Execute: more than one command is built", typ)
				}
				cmdVar = lhs
				if len(c.Args) == 3 {
					if bl, ok := c.Args[1].(*ast.BasicLit); ok && bl.Value == `"-c"` && callName(c.Args[2]) == r+".cmd" {
						dashC = true
					}
				}
			case cmdVar != "" && callName(c.Fun) == cmdVar+".Run":
				if runPos != 0 || as.Tok != token.DEFINE {
					die("%s.Execute: the command is run more than once", typ)
				}
				errVar, runPos = lhs, as.Pos()
			}
		}
		// cmd.Stdout = io.Writer(&stdout)
		if cmdVar != "" && (lhs == cmdVar+".Stdout" || lhs == cmdVar+".Stderr") {
			var id string
			ast.Inspect(as.Rhs[0], func(n ast.Node) bool {
				if u, ok := n.(*ast.UnaryExpr); ok && u.Op == token.AND {
					id = callName(u.X)
				}
				return true
			})
			if id == "" {
				die("%s.Execute: %s is not set to the address of a local buffer", typ, lhs)
			}
			if lhs == cmdVar+".Stdout" {
				bufOut = id
			} else {
				bufErr = id
			}
		}
	}
	if cmdVar == "" || runPos == 0 || !dashC {
		die("%s.Execute: expected cmd := exec.CommandContext(ctx, shell, \"-c\", %s.cmd); err := cmd.Run()", typ, r)
	}
	nrun := 0
	ast.Inspect(in.fd.Body, func(n ast.Node) bool {
		if c, ok := n.(*ast.CallExpr); ok {
			switch callName(c.Fun) {
			case cmdVar + ".Run", cmdVar + ".Start", cmdVar + ".Output", cmdVar + ".CombinedOutput":
				nrun++
			}
		}
		return true
	})
	if nrun != 1 || bufOut == "" || bufErr == "" || bufOut == bufErr {
		die("%s.Execute: command started %d times / output buffers %q %q", typ, nrun, bufOut, bufErr)
	}
	ifs := in.statusIf(typ)
	nm, op, ok := nilTest(ifs.Cond)
	if !ok || nm != errVar {
		die("%s.Execute: the status test is not `%s != nil` / `%s == nil`", typ, errVar, errVar)
	}
	one := func(b *ast.BlockStmt) int64 {
		m, _ := in.branchAssigns(typ, b)
		if len(m) != 1 {
			die("%s.Execute: a status branch assigns more than jobStatus", typ)
		}
		return statusOf(typ, st, m["jobStatus"])
	}
	ts, es := one(ifs.Body), one(ifs.Else.(*ast.BlockStmt))
	// field sources
	src := map[string]string{}
	for _, a := range in.assigns {
		if a.field == "jobStatus" {
			continue
		}
		if a.rhs == nil {
			die("%s.Execute: field %s assigned from a tuple call", typ, a.field)
		}
		if _, dup := src[a.field]; dup {
			die("%s.Execute: field %s assigned twice", typ, a.field)
		}
		src[a.field] = callName(a.rhs)
	}
	fromRun := src["stdout"] == bufOut+".String()" && src["stderr"] == bufErr+".String()" &&
		src["exitCode"] == cmdVar+".ProcessState.ExitCode()" && len(src) == 3
	// the buffers and the command must be locals declared in this body (fresh per execution)
	locals := map[string]bool{}
	for _, s := range in.fd.Body.List {
		if d, ok := s.(*ast.DeclStmt); ok {
			if g, ok := d.Decl.(*ast.GenDecl); ok && g.Tok == token.VAR {
				for _, sp := range g.Specs {
					for _, n := range sp.(*ast.ValueSpec).Names {
						locals[n.Name] = true
					}
				}
			}
		}
	}
	if !locals[bufOut] || !locals[bufErr] {
		fromRun = false
	}
	ncb, after, guarded := in.callbackInfo(typ)
	if len(in.ret.Results) != 1 {
		die("%s.Execute: unexpected return", typ)
	}
	o.line("(* job/shell_job.go: ShellJob.Execute *)")
	o.line("Definition sh_cond_op : cmp_op := %s.", cmpOp(op))
	o.line("Definition sh_then_status : Z := %s.", coqZ(ts))
	o.line("Definition sh_else_status : Z := %s.", coqZ(es))
	o.line("(* exec.CommandContext(ctx, shell, \"-c\", sh.cmd) *)")
	o.line("Definition sh_uses_ctx : bool := %s.", coqBool(usesCtx))
	o.line("(* stdout, stderr, exitCode are taken from this execution's buffers and this command's ProcessState *)")
	o.line("Definition sh_fields_from_this_run : bool := %s.", coqBool(fromRun))
	o.line("Definition sh_run_before_lock : bool := %s.", coqBool(runPos < in.lockPos[0]))
	o.line("Definition sh_commit_locked : bool := %s.", coqBool(in.allAssignsLocked() && in.inLock(ifs.Pos())))
	o.line("(* if sh.callback != nil { sh.callback(ctx, sh) } *)")
	o.line("Definition sh_callback_calls : nat := %d.", ncb)
	o.line("Definition sh_callback_after_unlock : bool := %s.", coqBool(after && guarded && ncb > 0))
	o.line("Definition sh_returns_run_err : bool := %s.", coqBool(callName(in.ret.Results[0]) == errVar))
	o.line("")
}

// ---------------------------------------------------------------- CurlJob
func flattenAnd(e ast.Expr) []ast.Expr {
	if be, ok := unparen(e).(*ast.BinaryExpr); ok && be.Op == token.LAND {
		return append(flattenAnd(be.X), flattenAnd(be.Y)...)
	}
	return []ast.Expr{unparen(e)}
}

func mirror(op token.Token) token.Token {
	return map[token.Token]token.Token{token.GEQ: token.LEQ, token.LEQ: token.GEQ, token.GTR: token.LSS,
		token.LSS: token.GTR, token.EQL: token.EQL, token.NEQ: token.NEQ}[op]
}

func genCurlJob(o *out, st map[string]int64) {
	const typ = "CurlJob"
	f := parse("job/curl_job.go")
	in := scanExec(f, typ)
	r := in.recv
	limit := func(e ast.Expr) (int64, bool) {
		e = unparen(e)
		if bl, ok := e.(*ast.BasicLit); ok && bl.Kind == token.INT {
			return f.intOf(bl), true
		}
		if se, ok := e.(*ast.SelectorExpr); ok && callName(se.X) == "http" {
			if v, ok := httpStatus[se.Sel.Name]; ok {
				return v, true
			}
			die("%s.Execute: unknown net/http constant http.%s", typ, se.Sel.Name)
		}
		return 0, false
	}
	// the Do call
	var doPos token.Pos
	var errVar string
	ndo := 0
	ast.Inspect(in.fd.Body, func(n ast.Node) bool {
		if c, ok := n.(*ast.CallExpr); ok && callName(c.Fun) == r+".httpClient.Do" {
			ndo++
			if len(c.Args) != 1 || callName(c.Args[0]) != r+".request" {
				die("%s.Execute: Do is not called with %s.request", typ, r)
			}
		}
		return true
	})
	for _, s := range in.fd.Body.List {
		as, ok := s.(*ast.AssignStmt)
		if !ok || len(as.Rhs) != 1 {
			continue
		}
		if c, ok := as.Rhs[0].(*ast.CallExpr); ok && callName(c.Fun) == r+".httpClient.Do" {
			if len(as.Lhs) != 2 || callName(as.Lhs[0]) != r+".response" || as.Tok != token.ASSIGN {
				die("%s.Execute: expected `%s.response, err = %s.httpClient.Do(%s.request)`", typ, r, r, r)
			}
			errVar, doPos = callName(as.Lhs[1]), as.Pos()
		}
	}
	if ndo != 1 || doPos == 0 {
		die("%s.Execute: expected exactly one top-level call of httpClient.Do (found %d)", typ, ndo)
	}
	// request re-bound to ctx before Do
	rebind := false
	for _, a := range in.assigns {
		if a.field == "request" {
			c, ok := a.rhs.(*ast.CallExpr)
			if ok && callName(c.Fun) == r+".request.WithContext" && len(c.Args) == 1 && callName(c.Args[0]) == "ctx" && a.pos < doPos {
				rebind = true
			} else {
				die("%s.Execute: unexpected assignment to request", typ)
			}
		}
	}
	// previous body closed under the lock before Do: if resp != nil && resp.Body != nil { _ = resp.Body.Close() }
	closes := false
	for _, s := range in.fd.Body.List {
		ifs, ok := s.(*ast.IfStmt)
		if !ok || ifs.Else != nil || ifs.Init != nil {
			continue
		}
		hasClose := false
		ast.Inspect(ifs.Body, func(n ast.Node) bool {
			if c, ok := n.(*ast.CallExpr); ok && callName(c.Fun) == r+".response.Body.Close" {
				hasClose = true
			}
			return true
		})
		if !hasClose {
			continue
		}
		guards := map[string]bool{}
		for _, t := range flattenAnd(ifs.Cond) {
			if nm, op, ok := nilTest(t); ok && op == token.NEQ {
				guards[nm] = true
			} else {
				die("%s.Execute: unexpected guard of the body close", typ)
			}
		}
		if guards[r+".response"] && guards[r+".response.Body"] && len(guards) == 2 && in.inLock(ifs.Pos()) && ifs.End() < doPos {
			closes = true
		}
	}
	// status test
	ifs := in.statusIf(typ)
	nilGuard := false
	var cmps []string
	for _, t := range flattenAnd(ifs.Cond) {
		if nm, op, ok := nilTest(t); ok {
			if nm == r+".response" && op == token.NEQ && !nilGuard && len(cmps) == 0 {
				nilGuard = true
				continue
			}
			die("%s.Execute: unexpected nil test in the status condition", typ)
		}
		be, ok := t.(*ast.BinaryExpr)
		if !ok {
			die("%s.Execute: unexpected term in the status condition", typ)
		}
		op := be.Op
		var lim int64
		if callName(be.X) == r+".response.StatusCode" {
			v, ok := limit(be.Y)
			if !ok {
				die("%s.Execute: status code compared with a non-constant", typ)
			}
			lim = v
		} else if callName(be.Y) == r+".response.StatusCode" {
			v, ok := limit(be.X)
			if !ok {
				die("%s.Execute: status code compared with a non-constant", typ)
			}
			lim, op = v, mirror(op)
		} else {
			die("%s.Execute: status condition term does not test response.StatusCode", typ)
		}
		cmps = append(cmps, "("+cmpOp(op)+", "+coqZ(lim)+")")
	}
	if len(cmps) == 0 {
		die("%s.Execute: no status code comparison found", typ)
	}
	one := func(b *ast.BlockStmt) int64 {
		m, _ := in.branchAssigns(typ, b)
		if len(m) != 1 {
			die("%s.Execute: a status branch assigns more than jobStatus", typ)
		}
		return statusOf(typ, st, m["jobStatus"])
	}
	ts, es := one(ifs.Body), one(ifs.Else.(*ast.BlockStmt))
	for _, a := range in.assigns {
		switch a.field {
		case "request", "response", "jobStatus":
		default:
			die("%s.Execute: unexpected assignment to field %s", typ, a.field)
		}
	}
	ncb, after, guarded := in.callbackInfo(typ)
	if len(in.ret.Results) != 1 {
		die("%s.Execute: unexpected return", typ)
	}
	o.line("(* job/curl_job.go: CurlJob.Execute *)")
	o.line("(* if cu.response != nil && cu.response.StatusCode <op> <limit> && ... { then } else { else } *)")
	o.line("Definition cu_nil_guard : bool := %s.", coqBool(nilGuard))
	o.line("Definition cu_code_cmps : list (cmp_op * Z) := [%s].", strings.Join(cmps, "; "))
	o.line("Definition cu_then_status : Z := %s.", coqZ(ts))
	o.line("Definition cu_else_status : Z := %s.", coqZ(es))
	o.line("(* the status is computed after Do, from the response Do returned *)")
	o.line("Definition cu_status_after_do : bool := %s.", coqBool(ifs.Pos() > doPos))
	o.line("(* Do, the status test and all field assignments lie between mtx.Lock() and mtx.Unlock() *)")
	o.line("Definition cu_do_under_lock : bool := %s.", coqBool(in.inLock(doPos)))
	o.line("Definition cu_commit_locked : bool := %s.", coqBool(in.allAssignsLocked() && in.inLock(ifs.Pos())))
	o.line("(* cu.request = cu.request.WithContext(ctx) before Do(cu.request) *)")
	o.line("Definition cu_rebinds_ctx : bool := %s.", coqBool(rebind))
	o.line("(* the previous response's body is closed under the lock before Do *)")
	o.line("Definition cu_closes_prev_body : bool := %s.", coqBool(closes))
	o.line("Definition cu_callback_calls : nat := %d.", ncb)
	o.line("Definition cu_callback_after_unlock : bool := %s.", coqBool(after && guarded && ncb > 0))
	o.line("Definition cu_returns_do_err : bool := %s.", coqBool(callName(in.ret.Results[0]) == errVar))
	o.line("")
}

// ---------------------------------------------------------------- isolatedJob
func genIsolated(o *out) {
	const typ = "isolatedJob"
	f := parse("job/isolated_job.go")
	fd := f.method(typ, "Execute")
	r := recvName(fd)
	flag := r + ".isRunning"
	body := fd.Body.List
	isErrReturn := func(b *ast.BlockStmt) bool {
		if len(b.List) != 1 {
			return false
		}
		rs, ok := b.List[0].(*ast.ReturnStmt)
		if !ok || len(rs.Results) != 1 {
			return false
		}
		c, ok := rs.Results[0].(*ast.CallExpr)
		return ok && (callName(c.Fun) == "errors.New" || callName(c.Fun) == "fmt.Errorf")
	}
	boolArg := func(c *ast.CallExpr, want string) bool {
		return len(c.Args) == 1 && callName(c.Args[0]) == want
	}
	if len(body) < 3 {
		die("%s.Execute: body too short", typ)
	}
	// every operation on the flag in the whole body, to make sure nothing is missed
	nops := 0
	ast.Inspect(fd.Body, func(n ast.Node) bool {
		switch x := n.(type) {
		case *ast.CallExpr:
			if strings.HasPrefix(callName(x.Fun), flag+".") {
				nops++
			}
		case *ast.FuncLit, *ast.GoStmt, *ast.ForStmt, *ast.RangeStmt:
			die("%s.Execute: shape not understood (closure, goroutine or loop)", typ)
		}
		return true
	})
	// ---- admission ----
	usesSwap := false
	i := 0
	ifs, ok := body[0].(*ast.IfStmt)
	if !ok || ifs.Else != nil || !isErrReturn(ifs.Body) {
		die("%s.Execute: expected the fail-fast `if ... { return errors.New(...) }` first", typ)
	}
	if ifs.Init != nil {
		as, ok := ifs.Init.(*ast.AssignStmt)
		if !ok || len(as.Lhs) != 1 || len(as.Rhs) != 1 || as.Tok != token.DEFINE {
			die("%s.Execute: unexpected init statement", typ)
		}
		c, ok := as.Rhs[0].(*ast.CallExpr)
		if !ok || callName(c.Fun) != flag+".Swap" || !boolArg(c, "true") {
			die("%s.Execute: admission is not `old := %s.Swap(true)`", typ, flag)
		}
		if callName(ifs.Cond) != callName(as.Lhs[0]) {
			die("%s.Execute: the fail-fast test is not the value observed by Swap", typ)
		}
		usesSwap = true
		i = 1
	} else {
		cond := unparen(ifs.Cond)
		if u, ok := cond.(*ast.UnaryExpr); ok && u.Op == token.NOT {
			// if !j.isRunning.CompareAndSwap(false, true) { return err }: fails exactly when the flag was
			// already true and then leaves it true -- the same atomic action as Swap(true) observing true
			cc, ok := unparen(u.X).(*ast.CallExpr)
			if !ok || callName(cc.Fun) != flag+".CompareAndSwap" || len(cc.Args) != 2 ||
				callName(cc.Args[0]) != "false" || callName(cc.Args[1]) != "true" {
				die("%s.Execute: admission test not understood", typ)
			}
			usesSwap = true
			i = 1
			cond = nil
		}
		c, ok := cond.(*ast.CallExpr)
		if cond != nil && !ok {
			die("%s.Execute: admission test not understood", typ)
		}
		if cond != nil {
			switch callName(c.Fun) {
			case flag + ".Swap":
				if !boolArg(c, "true") {
					die("%s.Execute: Swap argument is not true", typ)
				}
				usesSwap = true
				i = 1
			case flag + ".Load":
				// load-then-store: if j.isRunning.Load() { return err }; j.isRunning.Store(true)
				es, ok := body[1].(*ast.ExprStmt)
				if !ok {
					die("%s.Execute: expected %s.Store(true) after the Load test", typ, flag)
				}
				sc, ok := es.X.(*ast.CallExpr)
				if !ok || callName(sc.Fun) != flag+".Store" || !boolArg(sc, "true") {
					die("%s.Execute: expected %s.Store(true) after the Load test", typ, flag)
				}
				usesSwap = false
				i = 2
			default:
				die("%s.Execute: admission test not understood", typ)
			}
		}
	}
	// ---- release and the call of the underlying job ----
	rest := body[i:]
	isStoreFalse := func(c *ast.CallExpr) bool { return callName(c.Fun) == flag+".Store" && boolArg(c, "false") }
	isUnderlying := func(e ast.Expr) bool {
		c, ok := e.(*ast.CallExpr)
		return ok && callName(c.Fun) == r+".Job.Execute" && len(c.Args) == 1 && callName(c.Args[0]) == "ctx"
	}
	deferred := false
	switch {
	case len(rest) == 2:
		// defer j.isRunning.Store(false); return j.Job.Execute(ctx)
		d, ok := rest[0].(*ast.DeferStmt)
		rs, ok2 := rest[1].(*ast.ReturnStmt)
		if !ok || !ok2 || !isStoreFalse(d.Call) || len(rs.Results) != 1 || !isUnderlying(rs.Results[0]) {
			die("%s.Execute: expected `defer %s.Store(false); return %s.Job.Execute(ctx)`", typ, flag, r)
		}
		deferred = true
	case len(rest) == 3:
		// err := j.Job.Execute(ctx); j.isRunning.Store(false); return err
		as, ok := rest[0].(*ast.AssignStmt)
		es, ok2 := rest[1].(*ast.ExprStmt)
		rs, ok3 := rest[2].(*ast.ReturnStmt)
		if !ok || !ok2 || !ok3 || len(as.Lhs) != 1 || len(as.Rhs) != 1 || !isUnderlying(as.Rhs[0]) || len(rs.Results) != 1 ||
			callName(rs.Results[0]) != callName(as.Lhs[0]) {
			die("%s.Execute: release shape not understood", typ)
		}
		sc, ok := es.X.(*ast.CallExpr)
		if !ok || !isStoreFalse(sc) {
			die("%s.Execute: release shape not understood", typ)
		}
		deferred = false
	default:
		die("%s.Execute: release shape not understood", typ)
	}
	wantOps := 2
	if !usesSwap {
		wantOps = 3
	}
	if nops != wantOps {
		die("%s.Execute: %d operations on %s, expected %d", typ, nops, flag, wantOps)
	}
	o.line("(* job/isolated_job.go: isolatedJob.Execute *)")
	o.line("(* admission by one atomic `old := isRunning.Swap(true); if old { return error }` (true),")
	o.line("   or by `if isRunning.Load() { return error }; isRunning.Store(true)` (false) *)")
	o.line("Definition iso_uses_swap : bool := %s.", coqBool(usesSwap))
	o.line("(* release by `defer isRunning.Store(false)` placed before the call of the underlying job (true),")
	o.line("   or by a plain statement after the call, which a panic skips (false) *)")
	o.line("Definition iso_store_deferred : bool := %s.", coqBool(deferred))

	// NewIsolatedJob(underlying): `return &isolatedJob{Job: underlying}` -- the new gate wraps exactly the job it was handed
	// (also when that job is itself an isolated job: the gates then stack, every path to the innermost job passes all of them)
	ctor := f.method("", "NewIsolatedJob")
	if ctor.Type.Params == nil || len(ctor.Type.Params.List) != 1 || len(ctor.Type.Params.List[0].Names) != 1 {
		die("NewIsolatedJob: expected one parameter")
	}
	param := ctor.Type.Params.List[0].Names[0].Name
	wrapsArg := false
	if len(ctor.Body.List) == 1 {
		if rs, ok := ctor.Body.List[0].(*ast.ReturnStmt); ok && len(rs.Results) == 1 {
			if u, ok := unparen(rs.Results[0]).(*ast.UnaryExpr); ok && u.Op == token.AND {
				if cl, ok := u.X.(*ast.CompositeLit); ok && callName(cl.Type) == typ && len(cl.Elts) == 1 {
					if kv, ok := cl.Elts[0].(*ast.KeyValueExpr); ok && callName(kv.Key) == "Job" && callName(kv.Value) == param {
						wrapsArg = true
					}
				}
			}
		}
	}
	if !wrapsArg {
		die("NewIsolatedJob: expected the single statement `return &%s{Job: %s}`", typ, param)
	}
	o.line("(* NewIsolatedJob(j) = &isolatedJob{Job: j}: the gate wraps exactly its argument, whatever that is *)")
	o.line("Definition iso_ctor_wraps_argument : bool := %s.", coqBool(wrapsArg))
}
