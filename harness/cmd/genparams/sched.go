package main

import (
	"bytes"
	"go/ast"
	"go/printer"
	"go/token"
	"strings"
)

// Section "sched": quartz/scheduler.go, quartz/queue.go, quartz/trigger.go, quartz/error.go.
//
// Copied: math.MaxInt64 and the default thresholds; the if / else-if chain of validateJob
// (conditions with their comparison operators, the `valid` result, the next-run-time extractor,
// the MisfiredChan offer); the priorities and Suspended values written by ScheduleJob, PauseJob,
// ResumeJob and fetchAndReschedule; the sentinel each error site returns; and for every API body,
// fetchAndReschedule and executeAndReschedule the ordered skeleton of calls on the queue, the
// locker, the trigger, the clock and Reset (from which the Coq side derives the lock discipline
// and the orderings). Anything with an unexpected shape makes the translator fail.
func init() { sections["sched-api"] = genSchedAPI; sections["sched-fetch"] = genSchedFetch }

const maxInt64 = int64(1<<63 - 1)

var timeUnits = map[string]int64{
	"time.Nanosecond": 1, "time.Microsecond": 1e3, "time.Millisecond": 1e6,
	"time.Second": 1e9, "time.Minute": 60e9, "time.Hour": 3600e9,
}

func exprStr(fset *token.FileSet, e ast.Node) string {
	var b bytes.Buffer
	if err := printer.Fprint(&b, fset, e); err != nil {
		die("cannot print expression: %v", err)
	}
	return strings.Join(strings.Fields(b.String()), "")
}

// schedInt evaluates integer expressions that may mention math.MaxInt64 and time units.
func (f *file) schedInt(e ast.Expr) int64 {
	switch x := unparen(e).(type) {
	case *ast.SelectorExpr:
		n := callName(x)
		if n == "math.MaxInt64" {
			return maxInt64
		}
		if v, ok := timeUnits[n]; ok {
			return v
		}
	case *ast.BinaryExpr:
		a, b := f.schedInt(x.X), f.schedInt(x.Y)
		switch x.Op {
		case token.MUL:
			return a * b
		case token.ADD:
			return a + b
		case token.SUB:
			return a - b
		}
	case *ast.CallExpr:
		if len(x.Args) == 1 {
			if id, ok := x.Fun.(*ast.Ident); ok && (id.Name == "int64" || id.Name == "int") {
				return f.schedInt(x.Args[0])
			}
			if callName(x.Fun) == "time.Duration" {
				return f.schedInt(x.Args[0])
			}
		}
	case *ast.BasicLit:
		return f.intOf(x)
	}
	die("%s: cannot evaluate %s", f.path, exprStr(f.fset, e))
	return 0
}

var sentinelOf = map[string]string{
	"ErrIllegalArgument": "SIllegalArgument", "ErrJobAlreadyExists": "SJobAlreadyExists",
	"ErrJobNotFound": "SJobNotFound", "ErrJobIsSuspended": "SJobIsSuspended",
	"ErrJobIsActive": "SJobIsActive", "ErrQueueEmpty": "SQueueEmpty", "ErrTriggerExpired": "STriggerExpired",
}

// errSentinel maps an error expression (newIllegalArgumentError(..), newIllegalStateError(ErrX), ErrX) to a sentinel.
func errSentinel(ef *file, wraps map[string]string, e ast.Expr) string {
	switch x := unparen(e).(type) {
	case *ast.Ident:
		if s, ok := sentinelOf[x.Name]; ok {
			return s
		}
	case *ast.CallExpr:
		switch callName(x.Fun) {
		case "newIllegalArgumentError":
			if wraps["newIllegalArgumentError"] == "ErrIllegalArgument" {
				return "SIllegalArgument"
			}
		case "newIllegalStateError":
			if wraps["newIllegalStateError"] == "ErrIllegalState" && len(x.Args) == 1 {
				return errSentinel(ef, wraps, x.Args[0])
			}
		}
	}
	die("cannot classify error expression %s", exprStr(ef.fset, e))
	return ""
}

// errorWrappers reads error.go: which sentinel each constructor wraps with %w as its first operand.
func errorWrappers(ef *file) map[string]string {
	out := map[string]string{}
	for _, name := range []string{"newIllegalArgumentError", "newIllegalStateError"} {
		fd := ef.method("", name)
		if len(fd.Body.List) != 1 {
			die("error.go: %s: expected a single return", name)
		}
		ret, ok := fd.Body.List[0].(*ast.ReturnStmt)
		if !ok || len(ret.Results) != 1 {
			die("error.go: %s: expected a single return", name)
		}
		c, ok := ret.Results[0].(*ast.CallExpr)
		if !ok || callName(c.Fun) != "fmt.Errorf" || len(c.Args) < 2 {
			die("error.go: %s: expected fmt.Errorf", name)
		}
		format := ef.strOf(c.Args[0])
		if !strings.HasPrefix(format, "%w") {
			die("error.go: %s: format does not start with %%w", name)
		}
		if name == "newIllegalStateError" && (format != "%w: %w" || len(c.Args) != 3 || callName(c.Args[2]) != "err") {
			die("error.go: newIllegalStateError does not wrap its argument with %%w")
		}
		out[name] = callName(c.Args[1])
	}
	for name := range sentinelOf { // each sentinel is its own errors.New value
		c, ok := ef.valueExpr(name).(*ast.CallExpr)
		if !ok || callName(c.Fun) != "errors.New" {
			die("error.go: %s is not errors.New(...)", name)
		}
	}
	return out
}

// dispatchChans names the channels on which fd hands a job over to the worker pool: the scheduler's field
// sched.dispatch, and any parameter of fd of type chan ScheduledJob (the per-run channel).
func dispatchChans(fd *ast.FuncDecl) map[string]bool {
	out := map[string]bool{"sched.dispatch": true}
	if fd.Type.Params != nil {
		for _, p := range fd.Type.Params.List {
			ct, ok := p.Type.(*ast.ChanType)
			if !ok || ct.Dir == ast.RECV || callName(ct.Value) != "ScheduledJob" {
				continue
			}
			for _, n := range p.Names {
				out[n.Name] = true
			}
		}
	}
	return out
}

// skeleton lists, in source order, the calls of interest and the assignments to opts.Suspended.
func skeleton(f *file, fd *ast.FuncDecl) []string {
	var out []string
	chans := dispatchChans(fd)
	var walk func(n ast.Node, deferred bool)
	item := func(c *ast.CallExpr, deferred bool) (string, bool) {
		name := callName(c.Fun)
		pre := ""
		if deferred {
			pre = "defer "
		}
		switch {
		case strings.HasPrefix(name, "sched.queueLocker."):
			return pre + strings.TrimPrefix(name, "sched."), true
		case strings.HasPrefix(name, "sched.queue."):
			return pre + strings.TrimPrefix(name, "sched."), true
		case strings.HasSuffix(name, ".NextFireTime") && len(c.Args) == 1:
			return pre + "NextFireTime(" + exprStr(f.fset, c.Args[0]) + ")", false
		case name == "sched.IsStarted" || name == "sched.Reset" || name == "sched.validateJob" ||
			name == "sched.fetchAndReschedule" || name == "sched.executeWithRetries":
			return pre + strings.TrimPrefix(name, "sched."), true
		case name == "nextRunTimeExtractor" || name == "newIllegalArgumentError" || name == "newIllegalStateError":
			return pre + name, true
		case name == "NowNano":
			return pre + "NowNano", true
		}
		return "", true
	}
	walk = func(n ast.Node, deferred bool) {
		ast.Inspect(n, func(m ast.Node) bool {
			switch x := m.(type) {
			case *ast.DeferStmt:
				if s, _ := item(x.Call, true); s != "" {
					out = append(out, s)
				}
				return false
			case *ast.CallExpr:
				s, descend := item(x, false)
				if s != "" {
					out = append(out, s)
				}
				return descend
			case *ast.AssignStmt:
				if len(x.Lhs) == 1 && len(x.Rhs) == 1 && strings.HasSuffix(callName(x.Lhs[0]), ".opts.Suspended") {
					out = append(out, "Suspended="+exprStr(f.fset, x.Rhs[0]))
				}
			case *ast.SendStmt:
				if chans[callName(x.Chan)] {
					out = append(out, "dispatch<-")
				}
			}
			return true
		})
	}
	walk(fd.Body, false)
	// NowNano() inside NextFireTime(NowNano()) is part of that item; a bare NowNano is kept only in validateJob
	return out
}

func dropItem(l []string, x string) []string {
	var o []string
	for _, s := range l {
		if s != x {
			o = append(o, s)
		}
	}
	return o
}

// priorityOf finds `priority: <expr>` in the scheduledJob literal assigned to variable v in fd.
func priorityOf(f *file, fd *ast.FuncDecl, v string) ast.Expr {
	var found ast.Expr
	ast.Inspect(fd.Body, func(n ast.Node) bool {
		as, ok := n.(*ast.AssignStmt)
		if !ok || len(as.Lhs) != 1 || len(as.Rhs) != 1 || callName(as.Lhs[0]) != v {
			return true
		}
		u, ok := as.Rhs[0].(*ast.UnaryExpr)
		if !ok || u.Op != token.AND {
			return true
		}
		cl, ok := u.X.(*ast.CompositeLit)
		if !ok || callName(cl.Type) != "scheduledJob" {
			return true
		}
		for _, el := range cl.Elts {
			kv, ok := el.(*ast.KeyValueExpr)
			if ok && callName(kv.Key) == "priority" {
				if found != nil {
					die("%s: two scheduledJob literals assigned to %s", fd.Name.Name, v)
				}
				found = kv.Value
			}
		}
		return true
	})
	if found == nil {
		die("%s: no scheduledJob literal with a priority assigned to %s", fd.Name.Name, v)
	}
	return found
}

// assignedFrom reports the call whose (first) result is assigned to variable v in fd (":=" or "=").
func assignedFrom(fd *ast.FuncDecl, v string) []*ast.CallExpr {
	var out []*ast.CallExpr
	ast.Inspect(fd.Body, func(n ast.Node) bool {
		as, ok := n.(*ast.AssignStmt)
		if !ok || len(as.Lhs) < 1 || len(as.Rhs) != 1 || callName(as.Lhs[0]) != v {
			return true
		}
		if c, ok := as.Rhs[0].(*ast.CallExpr); ok {
			out = append(out, c)
		}
		return true
	})
	return out
}

func suspendedAssign(f *file, fd *ast.FuncDecl) string {
	val := ""
	ast.Inspect(fd.Body, func(n ast.Node) bool {
		as, ok := n.(*ast.AssignStmt)
		if ok && len(as.Lhs) == 1 && len(as.Rhs) == 1 && strings.HasSuffix(callName(as.Lhs[0]), ".opts.Suspended") {
			if val != "" {
				die("%s: two assignments to opts.Suspended", fd.Name.Name)
			}
			val = exprStr(f.fset, as.Rhs[0])
		}
		return true
	})
	if val != "true" && val != "false" {
		die("%s: expected one assignment opts.Suspended = true|false", fd.Name.Name)
	}
	return val
}

// nilCheckSentinel: first statement `if <arg> == nil { return [nil,] newIllegalArgumentError(..) }`.
func firstIfReturnErr(f *file, ef *file, wraps map[string]string, fd *ast.FuncDecl, cond string) string {
	if len(fd.Body.List) == 0 {
		die("%s: empty body", fd.Name.Name)
	}
	ifs, ok := fd.Body.List[0].(*ast.IfStmt)
	if !ok || exprStr(f.fset, ifs.Cond) != cond || len(ifs.Body.List) != 1 {
		die("%s: expected `if %s { return ... }` first", fd.Name.Name, cond)
	}
	ret, ok := ifs.Body.List[0].(*ast.ReturnStmt)
	if !ok || len(ret.Results) == 0 {
		die("%s: nil check does not return", fd.Name.Name)
	}
	return errSentinel(ef, wraps, ret.Results[len(ret.Results)-1])
}

// stateCheckSentinel: `if <cond> { return newIllegalStateError(ErrX) }` anywhere in the body.
func ifReturnErr(f *file, ef *file, wraps map[string]string, fd *ast.FuncDecl, cond string) string {
	res := ""
	ast.Inspect(fd.Body, func(n ast.Node) bool {
		ifs, ok := n.(*ast.IfStmt)
		if ok && exprStr(f.fset, ifs.Cond) == cond && len(ifs.Body.List) == 1 {
			if ret, ok := ifs.Body.List[0].(*ast.ReturnStmt); ok && len(ret.Results) >= 1 {
				res = errSentinel(ef, wraps, ret.Results[len(ret.Results)-1])
			}
		}
		return true
	})
	if res == "" {
		die("%s: `if %s { return <error> }` not found", fd.Name.Name, cond)
	}
	return res
}

// lastReturnErrIn: the sentinel returned by the last `return ..., newIllegalStateError(ErrX)` of a queue method.
func lastReturnErr(qf *file, ef *file, wraps map[string]string, fd *ast.FuncDecl) string {
	var last ast.Expr
	ast.Inspect(fd.Body, func(n ast.Node) bool {
		if ret, ok := n.(*ast.ReturnStmt); ok && len(ret.Results) >= 1 {
			r := ret.Results[len(ret.Results)-1]
			if c, ok := r.(*ast.CallExpr); ok && strings.HasPrefix(callName(c.Fun), "newIllegal") {
				last = r
			}
		}
		return true
	})
	if last == nil {
		die("queue.go: %s returns no illegal-state error", fd.Name.Name)
	}
	return errSentinel(ef, wraps, last)
}

type vbranch struct {
	cond, next           string
	valid, misfire, nonb bool
}

func genSchedAPI(o *out) {
	sf := parse("quartz/scheduler.go")
	qf := parse("quartz/queue.go")
	tf := parse("quartz/trigger.go")
	ef := parse("quartz/error.go")
	wraps := errorWrappers(ef)

	o.line("From Coq Require Import ZArith String List.")
	o.line("Import ListNotations.")
	o.line("Open Scope Z_scope.")
	o.line("Open Scope string_scope.")
	o.line("")
	o.line("Inductive sentinel := SIllegalArgument | SJobAlreadyExists | SJobNotFound | SJobIsSuspended | SJobIsActive | SQueueEmpty | STriggerExpired | SOther.")
	o.line("")
	o.line("(* math.MaxInt64 *)")
	o.line("Definition go_MaxInt64 : Z := %s.", coqZ(maxInt64))

	// ---- NewStdScheduler defaults ----
	ns := sf.method("", "NewStdScheduler")
	defaults := map[string]int64{}
	ast.Inspect(ns.Body, func(n ast.Node) bool {
		cl, ok := n.(*ast.CompositeLit)
		if !ok || callName(cl.Type) != "SchedulerConfig" {
			return true
		}
		for _, el := range cl.Elts {
			kv, ok := el.(*ast.KeyValueExpr)
			if !ok {
				die("NewStdScheduler: SchedulerConfig literal without keys")
			}
			defaults[callName(kv.Key)] = sf.schedInt(kv.Value)
		}
		return true
	})
	if len(defaults) != 2 {
		die("NewStdScheduler: expected OutdatedThreshold and RetryInterval defaults, found %v", defaults)
	}
	ot, ok1 := defaults["OutdatedThreshold"]
	ri, ok2 := defaults["RetryInterval"]
	if !ok1 || !ok2 {
		die("NewStdScheduler: defaults of OutdatedThreshold / RetryInterval not found")
	}
	o.line("(* NewStdScheduler: default SchedulerConfig *)")
	o.line("Definition default_outdated_threshold_ns : Z := %s.", coqZ(ot))
	o.line("Definition default_retry_interval_ns : Z := %s.", coqZ(ri))
	o.line("")

	// ---- API sites ----
	sj := sf.method("StdScheduler", "ScheduleJob")
	pj := sf.method("StdScheduler", "PauseJob")
	rj := sf.method("StdScheduler", "ResumeJob")
	dj := sf.method("StdScheduler", "DeleteJob")
	gj := sf.method("StdScheduler", "GetScheduledJob")
	gk := sf.method("StdScheduler", "GetJobKeys")
	cj := sf.method("StdScheduler", "Clear")

	// ScheduleJob: nextRunTime := int64(math.MaxInt64); if !jobDetail.opts.Suspended { nextRunTime, err = trigger.NextFireTime(NowNano()) ... }
	var park ast.Expr
	guard := false
	for _, st := range sj.Body.List {
		switch x := st.(type) {
		case *ast.AssignStmt:
			if x.Tok == token.DEFINE && len(x.Lhs) == 1 && callName(x.Lhs[0]) == "nextRunTime" {
				park = x.Rhs[0]
			}
		case *ast.IfStmt:
			if exprStr(sf.fset, x.Cond) == "!jobDetail.opts.Suspended" {
				for _, c := range callsIn(x.Body.List) {
					if strings.HasSuffix(c.name, ".NextFireTime") {
						guard = true
					}
				}
			}
		}
	}
	if park == nil {
		die("ScheduleJob: `nextRunTime := ...` not found")
	}
	if exprStr(sf.fset, priorityOf(sf, sj, "toSchedule")) != "nextRunTime" {
		die("ScheduleJob: toSchedule.priority is not nextRunTime")
	}
	// every NextFireTime call in ScheduleJob must be inside the guard (or the guard is absent)
	nftCalls := 0
	for _, c := range callsIn(sj.Body.List) {
		if strings.HasSuffix(c.name, ".NextFireTime") {
			nftCalls++
		}
	}
	if nftCalls != 1 {
		die("ScheduleJob: expected exactly one NextFireTime call")
	}
	o.line("(* ---- priorities and trigger arguments at the API sites ---- *)")
	o.line("Definition schedule_park_priority : Z := %s.   (* nextRunTime := int64(math.MaxInt64) *)", coqZ(sf.schedInt(park)))
	o.line("Definition schedule_trigger_guard_not_suspended : bool := %s.  (* if !jobDetail.opts.Suspended { ... NextFireTime ... } *)", coqBool(guard))
	o.line("Definition pause_park_priority : Z := %s.      (* paused.priority *)", coqZ(sf.schedInt(priorityOf(sf, pj, "paused"))))
	o.line("Definition pause_sets_suspended : bool := %s.                  (* job.JobDetail().opts.Suspended = true *)", suspendedAssign(sf, pj))
	o.line("Definition resume_sets_suspended : bool := %s.                (* job.JobDetail().opts.Suspended = false *)", suspendedAssign(sf, rj))
	rp := exprStr(sf.fset, priorityOf(sf, rj, "resumed"))
	isTrig := false
	if rp == "nextRunTime" {
		cs := assignedFrom(rj, "nextRunTime")
		isTrig = len(cs) == 1 && strings.HasSuffix(callName(cs[0].Fun), ".NextFireTime")
	} else if rp != "job.NextRunTime()" {
		die("ResumeJob: resumed.priority is neither nextRunTime nor job.NextRunTime()")
	}
	o.line("Definition resume_priority_is_trigger_result : bool := %s.     (* resumed.priority = nextRunTime (the NextFireTime result) *)", coqBool(isTrig))
	o.line("")

	// ---- sentinels ----
	var argS []string
	emptyName := false
	for _, st := range sj.Body.List {
		ifs, ok := st.(*ast.IfStmt)
		if !ok || len(ifs.Body.List) != 1 {
			continue
		}
		ret, ok := ifs.Body.List[0].(*ast.ReturnStmt)
		if !ok || len(ret.Results) != 1 {
			continue
		}
		c, ok := ret.Results[0].(*ast.CallExpr)
		if !ok || callName(c.Fun) != "newIllegalArgumentError" {
			continue
		}
		cond := exprStr(sf.fset, ifs.Cond)
		want := []string{"jobDetail==nil", "jobDetail.jobKey==nil", "jobDetail.jobKey.name==\"\"", "trigger==nil"}
		if len(argS) >= len(want) || cond != want[len(argS)] {
			die("ScheduleJob: unexpected argument check %s", cond)
		}
		if cond == "jobDetail.jobKey.name==\"\"" {
			emptyName = true
		}
		argS = append(argS, errSentinel(ef, wraps, ret.Results[0]))
	}
	if len(argS) != 4 {
		die("ScheduleJob: expected four argument checks, found %d", len(argS))
	}
	o.line("(* ---- sentinels ---- *)")
	o.line("Definition schedule_arg_sentinels : list sentinel := [%s].", strings.Join(argS, "; "))
	o.line("Definition schedule_checks_empty_name : bool := %s.            (* jobDetail.jobKey.name == \"\" *)", coqBool(emptyName))
	o.line("Definition get_nilkey_sentinel : sentinel := %s.", firstIfReturnErr(sf, ef, wraps, gj, "jobKey==nil"))
	o.line("Definition delete_nilkey_sentinel : sentinel := %s.", firstIfReturnErr(sf, ef, wraps, dj, "jobKey==nil"))
	o.line("Definition pause_nilkey_sentinel : sentinel := %s.", firstIfReturnErr(sf, ef, wraps, pj, "jobKey==nil"))
	o.line("Definition resume_nilkey_sentinel : sentinel := %s.", firstIfReturnErr(sf, ef, wraps, rj, "jobKey==nil"))
	o.line("Definition pause_suspended_sentinel : sentinel := %s.   (* if job.JobDetail().opts.Suspended *)", ifReturnErr(sf, ef, wraps, pj, "job.JobDetail().opts.Suspended"))
	o.line("Definition resume_active_sentinel : sentinel := %s.        (* if !job.JobDetail().opts.Suspended *)", ifReturnErr(sf, ef, wraps, rj, "!job.JobDetail().opts.Suspended"))
	qPush := qf.method("jobQueue", "Push")
	replaceGuard := false
	ast.Inspect(qPush.Body, func(n ast.Node) bool {
		if ifs, ok := n.(*ast.IfStmt); ok && exprStr(qf.fset, ifs.Cond) == "job.JobDetail().opts.Replace" {
			for _, c := range callsIn(ifs.Body.List) {
				if c.name == "heap.Remove" {
					replaceGuard = true
				}
			}
		}
		return true
	})
	o.line("Definition queue_push_exists_sentinel : sentinel := %s.", lastReturnErr(qf, ef, wraps, qPush))
	o.line("Definition queue_push_replace_guard : bool := %s.                  (* if job.JobDetail().opts.Replace { heap.Remove; break } *)", coqBool(replaceGuard))
	o.line("Definition queue_get_missing_sentinel : sentinel := %s.", lastReturnErr(qf, ef, wraps, qf.method("jobQueue", "Get")))
	o.line("Definition queue_remove_missing_sentinel : sentinel := %s.", lastReturnErr(qf, ef, wraps, qf.method("jobQueue", "Remove")))
	o.line("Definition queue_pop_empty_sentinel : sentinel := %s.", lastReturnErr(qf, ef, wraps, qf.method("jobQueue", "Pop")))
	o.line("Definition queue_head_empty_sentinel : sentinel := %s.", lastReturnErr(qf, ef, wraps, qf.method("jobQueue", "Head")))
	ro := tf.method("RunOnceTrigger", "NextFireTime")
	lastRet, ok := ro.Body.List[len(ro.Body.List)-1].(*ast.ReturnStmt)
	if !ok || len(lastRet.Results) != 2 {
		die("RunOnceTrigger.NextFireTime: unexpected final return")
	}
	o.line("Definition trigger_runonce_expired_sentinel : sentinel := %s.", errSentinel(ef, wraps, lastRet.Results[1]))
	o.line("")

	// ---- skeletons ----
	o.line("(* ---- ordered skeleton of each API body: calls on the queue, the locker, the trigger, the clock, Reset,")
	o.line("        error constructors, and assignments to opts.Suspended (logging and accessors left out) ---- *)")
	emit := func(name string, fd *ast.FuncDecl) {
		o.line("Definition calls_%s : list string :=", name)
		o.line("  %s.", coqStrList(skeleton(sf, fd)))
	}
	emit("ScheduleJob", sj)
	emit("GetJobKeys", gk)
	emit("GetScheduledJob", gj)
	emit("DeleteJob", dj)
	emit("PauseJob", pj)
	emit("ResumeJob", rj)
	emit("Clear", cj)
}

func genSchedFetch(o *out) {
	sf := parse("quartz/scheduler.go")

	o.line("From Coq Require Import ZArith String List.")
	o.line("Import ListNotations.")
	o.line("Open Scope Z_scope.")
	o.line("Open Scope string_scope.")
	o.line("")
	o.line("Inductive cmp_op := OpGe | OpGt | OpLe | OpLt | OpEq | OpNe.")
	o.line("Inductive prev_src := PrevNow | PrevPrio.")
	o.line("")

	// ---- validateJob ----
	vj := sf.method("StdScheduler", "validateJob")
	if len(vj.Type.Params.List) != 1 || len(vj.Type.Params.List[0].Names) != 1 || vj.Type.Params.List[0].Names[0].Name != "job" {
		die("validateJob: expected one argument named job")
	}
	extractor := func(e ast.Expr) string {
		fl, ok := e.(*ast.FuncLit)
		if !ok || len(fl.Body.List) != 1 {
			die("validateJob: extractor is not a one-statement function literal")
		}
		ret, ok := fl.Body.List[0].(*ast.ReturnStmt)
		if !ok || len(ret.Results) < 1 {
			die("validateJob: extractor does not return")
		}
		s := exprStr(sf.fset, ret.Results[0])
		switch s {
		case "math.MaxInt64":
			if len(ret.Results) != 2 || exprStr(sf.fset, ret.Results[1]) != "nil" {
				die("validateJob: constant extractor returns an error")
			}
			return "XConst " + coqZ(maxInt64)
		case "job.NextRunTime()":
			if len(ret.Results) != 2 || exprStr(sf.fset, ret.Results[1]) != "nil" {
				die("validateJob: keep extractor returns an error")
			}
			return "XKeep"
		case "job.Trigger().NextFireTime(now)":
			return "XTrigger PrevNow"
		case "job.Trigger().NextFireTime(job.NextRunTime())":
			return "XTrigger PrevPrio"
		}
		die("validateJob: unknown extractor %s", s)
		return ""
	}
	condOf := func(e ast.Expr) string {
		s := exprStr(sf.fset, e)
		if s == "job.JobDetail().opts.Suspended" {
			return "CondSuspended"
		}
		be, ok := unparen(e).(*ast.BinaryExpr)
		if ok && exprStr(sf.fset, be.X) == "job.NextRunTime()" {
			switch exprStr(sf.fset, be.Y) {
			case "now-sched.opts.OutdatedThreshold.Nanoseconds()":
				return "CondPrioVsNowMinusThr " + cmpOp(be.Op)
			case "now":
				return "CondPrioVsNow " + cmpOp(be.Op)
			}
		}
		die("validateJob: unknown condition %s", s)
		return ""
	}
	var branches []vbranch
	var deflt *vbranch
	nowDefined := false
	parseBody := func(cond string, body []ast.Stmt) vbranch {
		b := vbranch{cond: cond, nonb: true}
		if len(body) == 0 {
			die("validateJob: empty branch")
		}
		ret, ok := body[len(body)-1].(*ast.ReturnStmt)
		if !ok || len(ret.Results) != 2 {
			die("validateJob: branch does not end in `return valid, extractor`")
		}
		switch exprStr(sf.fset, ret.Results[0]) {
		case "true":
			b.valid = true
		case "false":
		default:
			die("validateJob: valid result is not a literal")
		}
		b.next = extractor(ret.Results[1])
		for _, s := range body[:len(body)-1] {
			ast.Inspect(s, func(n ast.Node) bool {
				switch x := n.(type) {
				case *ast.SelectStmt:
					hasSend, hasDefault := false, false
					for _, cc := range x.Body.List {
						c := cc.(*ast.CommClause)
						if c.Comm == nil {
							hasDefault = true
						} else if snd, ok := c.Comm.(*ast.SendStmt); ok && callName(snd.Chan) == "sched.opts.MisfiredChan" && callName(snd.Value) == "job" {
							hasSend = true
						} else {
							die("validateJob: unexpected select case")
						}
					}
					if hasSend {
						b.misfire = true
						b.nonb = hasDefault
					}
					return false
				case *ast.SendStmt:
					if callName(x.Chan) == "sched.opts.MisfiredChan" {
						b.misfire = true
						b.nonb = false
					}
				case *ast.GoStmt, *ast.ReturnStmt:
					die("validateJob: unexpected statement in a branch")
				}
				return true
			})
		}
		return b
	}
	var walkIf func(ifs *ast.IfStmt)
	walkIf = func(ifs *ast.IfStmt) {
		if ifs.Init != nil {
			die("validateJob: if with init statement")
		}
		c := condOf(ifs.Cond)
		if c != "CondSuspended" && !nowDefined {
			die("validateJob: clock compared before it is read")
		}
		branches = append(branches, parseBody(c, ifs.Body.List))
		switch e := ifs.Else.(type) {
		case nil:
		case *ast.IfStmt:
			walkIf(e)
		default:
			die("validateJob: unexpected else block")
		}
	}
	for i, st := range vj.Body.List {
		switch x := st.(type) {
		case *ast.IfStmt:
			walkIf(x)
		case *ast.AssignStmt:
			if exprStr(sf.fset, x) != "now:=NowNano()" {
				die("validateJob: unexpected assignment %s", exprStr(sf.fset, x))
			}
			nowDefined = true
		case *ast.ReturnStmt:
			if i != len(vj.Body.List)-1 {
				die("validateJob: return before the end")
			}
			b := parseBody("CondSuspended", []ast.Stmt{x})
			deflt = &b
		default:
			die("validateJob: unexpected statement")
		}
	}
	if deflt == nil || len(branches) == 0 {
		die("validateJob: no final return or no branches")
	}
	clockReads := 0
	ast.Inspect(vj.Body, func(n ast.Node) bool {
		if c, ok := n.(*ast.CallExpr); ok && callName(c.Fun) == "NowNano" {
			clockReads++
		}
		return true
	})
	br := func(b vbranch) string {
		return "{| vb_cond := " + b.cond + "; vb_valid := " + coqBool(b.valid) + "; vb_next := " + b.next +
			"; vb_misfire := " + coqBool(b.misfire) + "; vb_nonblocking := " + coqBool(b.nonb) + " |}"
	}
	o.line("(* ---- validateJob: the if / else-if chain, in source order ----")
	o.line("   condition; the `valid` result; the next-run-time extractor; whether the branch offers the job")
	o.line("   to MisfiredChan; whether that offer is a select with a default clause (non-blocking) *)")
	o.line("Inductive vcond :=")
	o.line("| CondSuspended                      (* job.JobDetail().opts.Suspended *)")
	o.line("| CondPrioVsNowMinusThr (op : cmp_op) (* job.NextRunTime() <op> now - OutdatedThreshold.Nanoseconds() *)")
	o.line("| CondPrioVsNow (op : cmp_op).        (* job.NextRunTime() <op> now *)")
	o.line("Inductive extractor :=")
	o.line("| XConst (z : Z)                     (* func() { return z, nil } *)")
	o.line("| XTrigger (p : prev_src)            (* job.Trigger().NextFireTime(now | job.NextRunTime()) *)")
	o.line("| XKeep.                             (* func() { return job.NextRunTime(), nil } *)")
	o.line("Record vbranch := { vb_cond : vcond; vb_valid : bool; vb_next : extractor; vb_misfire : bool; vb_nonblocking : bool }.")
	o.line("Definition validate_branches : list vbranch :=")
	for i, b := range branches {
		pre, post := "    ", ";"
		if i == 0 {
			pre = "  [ "
		}
		if i == len(branches)-1 {
			post = " ]."
		}
		o.line("%s%s%s", pre, br(b), post)
	}
	o.line("Definition validate_default : vbranch :=")
	o.line("  %s.", br(*deflt))
	o.line("(* NowNano() is read once, after the Suspended test *)")
	o.line("Definition validate_clock_reads : nat := %d.", clockReads)
	o.line("")

	fr := sf.method("StdScheduler", "fetchAndReschedule")
	er := sf.method("StdScheduler", "executeAndReschedule")
	o.line("(* ---- fetchAndReschedule / executeAndReschedule ---- *)")
	fp := exprStr(sf.fset, priorityOf(sf, fr, "toSchedule"))
	isExt := false
	if fp == "nextRunTime" {
		cs := assignedFrom(fr, "nextRunTime")
		isExt = len(cs) == 1 && callName(cs[0].Fun) == "nextRunTimeExtractor"
	} else if fp != "job.NextRunTime()" {
		die("fetchAndReschedule: toSchedule.priority is neither nextRunTime nor job.NextRunTime()")
	}
	o.line("Definition fetch_priority_is_extractor_result : bool := %s.    (* toSchedule.priority = nextRunTime *)", coqBool(isExt))
	// fetch: `if err != nil { ...; return job, valid, nil }` right after the extractor call, final `return job, valid, nil`,
	// and the Pop error branch returning nil, false, nil for ErrQueueEmpty
	errRet, finalRet, emptyOK := false, false, false
	for i, st := range fr.Body.List {
		if ifs, ok := st.(*ast.IfStmt); ok && exprStr(sf.fset, ifs.Cond) == "err!=nil" && i > 0 {
			prev := exprStr(sf.fset, fr.Body.List[i-1])
			last := ifs.Body.List[len(ifs.Body.List)-1]
			switch {
			case strings.Contains(prev, "nextRunTimeExtractor()"):
				errRet = exprStr(sf.fset, last) == "returnjob,valid,nil"
			case strings.Contains(prev, "sched.queue.Pop()"):
				for _, s2 := range ifs.Body.List {
					if in, ok := s2.(*ast.IfStmt); ok && exprStr(sf.fset, in.Cond) == "errors.Is(err,ErrQueueEmpty)" {
						emptyOK = exprStr(sf.fset, in.Body.List[len(in.Body.List)-1]) == "returnnil,false,nil"
					}
				}
			}
		}
	}
	finalRet = exprStr(sf.fset, fr.Body.List[len(fr.Body.List)-1]) == "returnjob,valid,nil"
	o.line("Definition fetch_trigger_error_returns_job_valid : bool := %s. (* if err != nil { return job, valid, nil } before Push *)", coqBool(errRet))
	o.line("Definition fetch_returns_job_valid : bool := %s.               (* final return job, valid, nil *)", coqBool(finalRet))
	o.line("Definition fetch_empty_queue_not_error : bool := %s.           (* errors.Is(err, ErrQueueEmpty) => nil, false, nil *)", coqBool(emptyOK))
	if !errRet || !finalRet || !emptyOK {
		die("fetchAndReschedule: unexpected return structure (the model has no variant for it)")
	}
	// executeAndReschedule: every dispatch site inside `if valid { ... }`
	sites, guarded := 0, 0
	erChans := dispatchChans(er)
	countSites := func(n ast.Node) int {
		k := 0
		ast.Inspect(n, func(m ast.Node) bool {
			switch x := m.(type) {
			case *ast.CallExpr:
				if callName(x.Fun) == "sched.executeWithRetries" {
					if len(x.Args) != 2 || exprStr(sf.fset, x.Args[1]) != "scheduled.JobDetail()" {
						die("executeAndReschedule: executes something other than scheduled.JobDetail()")
					}
					k++
				}
			case *ast.SendStmt:
				if erChans[callName(x.Chan)] {
					if callName(x.Value) != "scheduled" {
						die("executeAndReschedule: dispatches something other than scheduled")
					}
					k++
				}
			}
			return true
		})
		return k
	}
	sites = countSites(er.Body)
	for _, st := range er.Body.List {
		if ifs, ok := st.(*ast.IfStmt); ok && exprStr(sf.fset, ifs.Cond) == "valid" {
			guarded += countSites(ifs.Body)
		}
	}
	o.line("Definition exec_guard_valid : bool := %s.                      (* executeAndReschedule dispatches only `if valid` *)", coqBool(sites > 0 && sites == guarded))
	o.line("Definition exec_dispatch_sites : nat := %d.                       (* blocking, worker pool, goroutine: each runs scheduled.JobDetail() *)", sites)
	o.line("")

	o.line("(* ---- ordered skeletons (see ParamsApi.v) ---- *)")
	emit := func(name string, fd *ast.FuncDecl) {
		o.line("Definition calls_%s : list string :=", name)
		o.line("  %s.", coqStrList(skeleton(sf, fd)))
	}
	emit("fetchAndReschedule", fr)
	emit("executeAndReschedule", er)
}
