package main

import (
	"go/ast"
	"go/token"
	"strings"
)

// Section "logger": logger/simple_logger.go, logger/slog_logger.go, logger/logger.go.
func init() { sections["logger"] = genLogger }

var logMethods = []string{"Trace", "Debug", "Info", "Warn", "Error"}

// values of log/slog's level constants (standard library, go1.21+)
var slogStd = map[string]int64{"slog.LevelDebug": -4, "slog.LevelInfo": 0, "slog.LevelWarn": 4, "slog.LevelError": 8}

func genLogger(o *out) {
	sl := parse("logger/simple_logger.go")
	o.line("From Coq Require Import ZArith String List.")
	o.line("Import ListNotations.")
	o.line("Open Scope Z_scope.")
	o.line("Open Scope string_scope.")
	o.line("")
	o.line("Inductive cmp_op := OpGe | OpGt | OpLe | OpLt | OpEq | OpNe.")
	o.line("")
	for _, n := range []string{"LevelTrace", "LevelDebug", "LevelInfo", "LevelWarn", "LevelError", "LevelOff"} {
		o.line("Definition go_%s : Z := %s.", n, coqZ(sl.intConst(n)))
	}
	o.line("")

	// SimpleLogger.<Method>: if l.enabled(LevelX) { [l.mtx.Lock()] l.logger.SetPrefix(p); _ = l.logger.Output(2, formatMessage(msg, args)) [l.mtx.Unlock()] }
	var lvls, pfx, locked []string
	for _, m := range logMethods {
		fd := sl.method("SimpleLogger", m)
		if len(fd.Body.List) != 1 {
			die("SimpleLogger.%s: expected a single if statement", m)
		}
		ifs, ok := fd.Body.List[0].(*ast.IfStmt)
		if !ok || ifs.Else != nil || ifs.Init != nil {
			die("SimpleLogger.%s: expected `if l.enabled(L) {...}`", m)
		}
		cond, ok := ifs.Cond.(*ast.CallExpr)
		if !ok || callName(cond.Fun) != "l.enabled" || len(cond.Args) != 1 {
			die("SimpleLogger.%s: guard is not l.enabled(L)", m)
		}
		lvls = append(lvls, coqZ(sl.intOf(cond.Args[0])))
		calls := callsIn(ifs.Body.List)
		iLock, iSet, iOut, iUnlock := -1, -1, -1, -1
		deferUnlock := false
		for i, c := range calls {
			switch c.name {
			case "l.mtx.Lock":
				if iLock < 0 {
					iLock = i
				}
			case "l.mtx.Unlock":
				if c.defer_ {
					deferUnlock = true
				}
				iUnlock = i
			case "l.logger.SetPrefix":
				if iSet >= 0 || len(c.call.Args) != 1 {
					die("SimpleLogger.%s: unexpected SetPrefix calls", m)
				}
				iSet = i
				pfx = append(pfx, coqStr(sl.strOf(c.call.Args[0])))
			case "l.logger.Output":
				if iOut >= 0 || len(c.call.Args) != 2 {
					die("SimpleLogger.%s: unexpected Output calls", m)
				}
				fm, ok := c.call.Args[1].(*ast.CallExpr)
				if !ok || callName(fm.Fun) != "formatMessage" || len(fm.Args) != 2 ||
					callName(fm.Args[0]) != "msg" || callName(fm.Args[1]) != "args" {
					die("SimpleLogger.%s: Output does not write formatMessage(msg, args)", m)
				}
				iOut = i
			case "formatMessage":
			default:
				die("SimpleLogger.%s: unexpected call %s", m, c.name)
			}
		}
		if iSet < 0 || iOut < 0 || iSet > iOut {
			die("SimpleLogger.%s: SetPrefix/Output not found in order", m)
		}
		isLocked := iLock >= 0 && iLock < iSet && ((deferUnlock && iUnlock > iLock) || iUnlock > iOut)
		locked = append(locked, coqBool(isLocked))
	}
	o.line("(* per method Trace, Debug, Info, Warn, Error of SimpleLogger *)")
	o.line("Definition simple_levels : list Z := [%s].", strings.Join(lvls, "; "))
	o.line("Definition simple_prefixes : list string := [%s].", strings.Join(pfx, "; "))
	o.line("(* SetPrefix and Output happen between l.mtx.Lock() and l.mtx.Unlock() *)")
	o.line("Definition simple_locked : list bool := [%s].", strings.Join(locked, "; "))

	// NewSimpleLogger: `return &SimpleLogger{logger: logger, level: level}` -- does the constructor read the wrapped
	// log.Logger's current prefix (state that other SimpleLoggers over the same log.Logger leave behind)?
	ctor := sl.method("", "NewSimpleLogger")
	if len(ctor.Body.List) != 1 {
		die("NewSimpleLogger: expected a single return statement")
	}
	cret, ok := ctor.Body.List[0].(*ast.ReturnStmt)
	if !ok || len(cret.Results) != 1 {
		die("NewSimpleLogger: expected a single return statement")
	}
	cu, ok := unparen(cret.Results[0]).(*ast.UnaryExpr)
	if !ok || cu.Op != token.AND {
		die("NewSimpleLogger: expected `return &SimpleLogger{...}`")
	}
	clit, ok := cu.X.(*ast.CompositeLit)
	if !ok || callName(clit.Type) != "SimpleLogger" {
		die("NewSimpleLogger: expected `return &SimpleLogger{...}`")
	}
	capturesPrefix := false
	for _, el := range clit.Elts {
		kv, ok := el.(*ast.KeyValueExpr)
		if !ok {
			die("NewSimpleLogger: expected keyed fields")
		}
		switch callName(kv.Key) + "=" + callName(kv.Value) {
		case "logger=logger", "level=level":
		default:
			// any other field: fine only if it does not look at the log.Logger's state
			ast.Inspect(kv.Value, func(n ast.Node) bool {
				if c, ok := n.(*ast.CallExpr); ok {
					if strings.HasSuffix(callName(c.Fun), ".Prefix") {
						capturesPrefix = true
					} else {
						die("NewSimpleLogger: unexpected call %s in field %s", callName(c.Fun), callName(kv.Key))
					}
				}
				return true
			})
		}
	}
	o.line("(* NewSimpleLogger stores what logger.Prefix() returns at construction time *)")
	o.line("Definition simple_ctor_captures_prefix : bool := %s.", coqBool(capturesPrefix))

	// enabled: return level >= l.level
	en := sl.method("SimpleLogger", "enabled")
	if len(en.Body.List) != 1 || len(en.Type.Params.List) != 1 || len(en.Type.Params.List[0].Names) != 1 {
		die("SimpleLogger.enabled: unexpected shape")
	}
	param := en.Type.Params.List[0].Names[0].Name
	ret, ok := en.Body.List[0].(*ast.ReturnStmt)
	if !ok || len(ret.Results) != 1 {
		die("SimpleLogger.enabled: expected a single return")
	}
	be, ok := unparen(ret.Results[0]).(*ast.BinaryExpr)
	if !ok {
		die("SimpleLogger.enabled: expected a comparison")
	}
	op := be.Op
	lhs, rhs := callName(be.X), callName(be.Y)
	switch {
	case lhs == param && rhs == "l.level":
	case lhs == "l.level" && rhs == param: // mirror
		op = map[token.Token]token.Token{token.GEQ: token.LEQ, token.LEQ: token.GEQ, token.GTR: token.LSS,
			token.LSS: token.GTR, token.EQL: token.EQL, token.NEQ: token.NEQ}[op]
	default:
		die("SimpleLogger.enabled: operands are not the level and l.level")
	}
	o.line("(* enabled(level) = level <op> l.level *)")
	o.line("Definition simple_enabled_op : cmp_op := %s.", cmpOp(op))

	// formatMessage: the three format strings
	fm := sl.method("", "formatMessage")
	var fmts []string
	step := int64(0)
	ast.Inspect(fm.Body, func(n ast.Node) bool {
		switch x := n.(type) {
		case *ast.CallExpr:
			if callName(x.Fun) == "fmt.Fprintf" && len(x.Args) >= 2 {
				fmts = append(fmts, sl.strOf(x.Args[1]))
			}
		case *ast.ForStmt:
			if as, ok := x.Post.(*ast.AssignStmt); ok && as.Tok == token.ADD_ASSIGN && len(as.Rhs) == 1 {
				step = sl.intOf(as.Rhs[0])
			}
		}
		return true
	})
	if len(fmts) != 3 || step != 2 {
		die("formatMessage: expected three Fprintf calls and a loop stepping by 2")
	}
	split := func(f string, verbs ...string) []string {
		var parts []string
		rest := f
		for _, v := range verbs {
			i := strings.Index(rest, v)
			if i < 0 {
				die("formatMessage: format %q lacks %s", f, v)
			}
			parts = append(parts, rest[:i])
			rest = rest[i+len(v):]
		}
		if strings.Contains(rest, "%") {
			die("formatMessage: format %q has extra verbs", f)
		}
		return append(parts, rest)
	}
	head := split(fmts[0], "%s")
	pair := split(fmts[1], "%s", "%v")
	tail := split(fmts[2], "%v")
	o.line("(* formatMessage: Fprintf(%q, msg); pairs Fprintf(%q, k, v); odd tail Fprintf(%q, v) *)", fmts[0], fmts[1], fmts[2])
	o.line("Definition fmt_head : list string := %s.", coqStrList(head))
	o.line("Definition fmt_pair : list string := %s.", coqStrList(pair))
	o.line("Definition fmt_tail : list string := %s.", coqStrList(tail))

	// SlogLogger: level passed to l.log by each method; Enabled guard in log
	sg := parse("logger/slog_logger.go")
	var slv []string
	for _, m := range logMethods {
		fd := sg.method("SlogLogger", m)
		calls := callsIn(fd.Body.List)
		var lc *ast.CallExpr
		for _, c := range calls {
			if c.name == "l.log" {
				lc = c.call
			}
		}
		if lc == nil || len(lc.Args) != 3 || callName(lc.Args[1]) != "msg" || callName(lc.Args[2]) != "args" || !lc.Ellipsis.IsValid() {
			die("SlogLogger.%s: expected l.log(level, msg, args...)", m)
		}
		arg := unparen(lc.Args[0])
		if v, ok := slogStd[callName(arg)]; ok {
			slv = append(slv, coqZ(v))
		} else if c, ok := arg.(*ast.CallExpr); ok && callName(c.Fun) == "slog.Level" && len(c.Args) == 1 {
			slv = append(slv, coqZ(sl.intOf(c.Args[0])))
		} else {
			die("SlogLogger.%s: cannot evaluate the level expression", m)
		}
	}
	o.line("(* level handed to the slog handler by SlogLogger.Trace, Debug, Info, Warn, Error *)")
	o.line("Definition slog_levels : list Z := [%s].", strings.Join(slv, "; "))
	lg := sg.method("SlogLogger", "log")
	guard, addArgs, handle := false, false, false
	order := []string{}
	ast.Inspect(lg.Body, func(n ast.Node) bool {
		switch x := n.(type) {
		case *ast.IfStmt:
			if u, ok := x.Cond.(*ast.UnaryExpr); ok && u.Op == token.NOT {
				if c, ok := u.X.(*ast.CallExpr); ok && callName(c.Fun) == "l.logger.Enabled" && len(c.Args) == 2 && callName(c.Args[1]) == "level" {
					if len(x.Body.List) == 1 {
						if _, ok := x.Body.List[0].(*ast.ReturnStmt); ok {
							guard = true
						}
					}
				}
			}
		case *ast.CallExpr:
			switch callName(x.Fun) {
			case "slog.NewRecord":
				if len(x.Args) == 4 {
					order = []string{callName(x.Args[1]), callName(x.Args[2])}
				}
			case "r.Add":
				addArgs = len(x.Args) == 1 && callName(x.Args[0]) == "args" && x.Ellipsis.IsValid()
			case "l.logger.Handler().Handle":
				handle = len(x.Args) == 2 && callName(x.Args[1]) == "r"
			}
		}
		return true
	})
	o.line("Definition slog_enabled_guard : bool := %s.", coqBool(guard))
	o.line("Definition slog_record_level_msg : bool := %s.", coqBool(len(order) == 2 && order[0] == "level" && order[1] == "msg"))
	o.line("Definition slog_adds_args : bool := %s.", coqBool(addArgs))
	o.line("Definition slog_handles_record : bool := %s.", coqBool(handle))

	// NoOpLogger: five empty methods
	nl := parse("logger/logger.go")
	empty := true
	for _, m := range logMethods {
		fd := nl.method("NoOpLogger", m)
		if len(fd.Body.List) != 0 {
			empty = false
		}
	}
	o.line("Definition noop_bodies_empty : bool := %s.", coqBool(empty))
}
