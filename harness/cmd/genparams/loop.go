package main

import (
	"go/ast"
	"go/token"
	"strings"
)

// Section "loop": structural facts of quartz/scheduler.go used by the models in coq/loop
// (execution loop, calculateNextTick, Reset, the API methods' queue calls, fetchAndReschedule,
// executeAndReschedule, startWorkers, executeWithRetries, Start/Stop/stopRun/stop/Wait).
func init() { sections["loop"] = genLoop }

// ---- small AST helpers (local to this section) ----

func lpIsCall(e ast.Expr, name string) *ast.CallExpr {
	c, ok := unparen(e).(*ast.CallExpr)
	if ok && callName(c.Fun) == name {
		return c
	}
	return nil
}

// all calls with the given dotted name inside a node, in source order
func lpCalls(n ast.Node, name string) []*ast.CallExpr {
	var out []*ast.CallExpr
	if n == nil {
		return out
	}
	ast.Inspect(n, func(x ast.Node) bool {
		if c, ok := x.(*ast.CallExpr); ok && callName(c.Fun) == name {
			out = append(out, c)
		}
		return true
	})
	return out
}

func lpHasCall(n ast.Node, name string) bool { return len(lpCalls(n, name)) > 0 }

// binary comparison `lhs op rhs` with the operands rendered by callName
func lpCmp(e ast.Expr) (string, token.Token, string, bool) {
	b, ok := unparen(e).(*ast.BinaryExpr)
	if !ok {
		return "", 0, "", false
	}
	return lpRender(b.X), b.Op, lpRender(b.Y), true
}

func lpRender(e ast.Expr) string {
	switch x := unparen(e).(type) {
	case *ast.BasicLit:
		return x.Value
	}
	return callName(unparen(e))
}

func lpIsErrNil(e ast.Expr, op token.Token) bool {
	l, o, r, ok := lpCmp(e)
	return ok && o == op && l == "err" && r == "nil"
}

// is the statement `recv.Lock()` / `defer recv.Unlock()`
func lpLockPrefix(body []ast.Stmt, recv string) bool {
	if len(body) < 2 {
		return false
	}
	es, ok := body[0].(*ast.ExprStmt)
	if !ok || lpIsCall(es.X, recv+".Lock") == nil {
		return false
	}
	ds, ok := body[1].(*ast.DeferStmt)
	return ok && callName(ds.Call.Fun) == recv+".Unlock"
}

// receive expression of a select clause: "<-X" rendered as X (with () for calls), "" otherwise
func lpCommRecv(cc *ast.CommClause) string {
	var e ast.Expr
	switch s := cc.Comm.(type) {
	case *ast.ExprStmt:
		e = s.X
	case *ast.AssignStmt:
		if len(s.Rhs) == 1 {
			e = s.Rhs[0]
		}
	}
	if u, ok := e.(*ast.UnaryExpr); ok && u.Op == token.ARROW {
		return callName(u.X)
	}
	return ""
}

func lpCommSend(cc *ast.CommClause) string {
	if s, ok := cc.Comm.(*ast.SendStmt); ok {
		return callName(s.Chan)
	}
	return ""
}

func lpTimerArm(f *file, e ast.Expr, where string) string {
	switch lpRender(e) {
	case "sched.opts.RetryInterval":
		return "TRetryInterval"
	case "maxTimerDuration":
		return "TMaxDuration"
	case "sched.calculateNextTick()":
		return "TNextTick"
	case "0":
		return "TZero"
	}
	die("%s: cannot classify the timer duration %s", where, lpRender(e))
	return ""
}

// position index of the first statement satisfying pred, -1 if none
func lpIndex(stmts []ast.Stmt, pred func(ast.Stmt) bool) int {
	for i, s := range stmts {
		if pred(s) {
			return i
		}
	}
	return -1
}

func lpIsWgAdd(s ast.Stmt) bool {
	es, ok := s.(*ast.ExprStmt)
	return ok && lpIsCall(es.X, "sched.wg.Add") != nil
}

func lpIsGo(s ast.Stmt) bool { _, ok := s.(*ast.GoStmt); return ok }

func coqPairList(ps [][2]string) string {
	p := make([]string, len(ps))
	for i, v := range ps {
		p[i] = "(" + v[0] + ", " + v[1] + ")"
	}
	return "[" + strings.Join(p, "; ") + "]"
}

// ---- does every queue error of an API method reach its caller? ----
// Walks the body in order.  pending = an `err` assigned from a queue call has not been returned or
// tested yet.  A return whose last result is the literal nil while pending swallows the error.
type lpErrWalk struct{ ok bool }

func (w *lpErrWalk) lastIs(r *ast.ReturnStmt, name string) bool {
	if len(r.Results) == 0 {
		return false
	}
	return lpRender(r.Results[len(r.Results)-1]) == name
}

func lpAssignsErrFromQueue(s ast.Stmt) bool {
	as, ok := s.(*ast.AssignStmt)
	if !ok || len(as.Rhs) != 1 {
		return false
	}
	c, ok := unparen(as.Rhs[0]).(*ast.CallExpr)
	if !ok || !strings.HasPrefix(callName(c.Fun), "sched.queue.") {
		return false
	}
	return lpRender(as.Lhs[len(as.Lhs)-1]) == "err"
}

func lpHasQueueCall(n ast.Node) bool {
	found := false
	ast.Inspect(n, func(x ast.Node) bool {
		if c, ok := x.(*ast.CallExpr); ok && strings.HasPrefix(callName(c.Fun), "sched.queue.") {
			found = true
		}
		return true
	})
	return found
}

func lpPropagates(fd *ast.FuncDecl) bool {
	w := &lpErrWalk{ok: true}
	// nested blocks may end with a pending error (it is returned later); only the function end is checked
	w2 := &lpTop{w: w}
	w2.run(fd.Body.List)
	return w.ok
}

type lpTop struct{ w *lpErrWalk }

func (t *lpTop) run(stmts []ast.Stmt) {
	pending := false
	for _, s := range stmts {
		switch x := s.(type) {
		case *ast.IfStmt:
			p := pending
			if x.Init != nil && lpAssignsErrFromQueue(x.Init) {
				p = true
			}
			switch {
			case lpIsErrNil(x.Cond, token.NEQ):
				if !t.endsWithErrReturn(x.Body.List) {
					t.w.ok = false
				}
				pending = false
			case lpIsErrNil(x.Cond, token.EQL):
				t.nested(x.Body.List)
				pending = true // the error (possibly re-assigned inside) must still be returned
			default:
				t.nested(x.Body.List)
				pending = p
			}
		case *ast.AssignStmt:
			if lpAssignsErrFromQueue(x) {
				pending = true
			} else if lpHasQueueCall(x) {
				t.w.ok = false
			}
		case *ast.ReturnStmt:
			if len(x.Results) == 1 {
				if c, ok := unparen(x.Results[0]).(*ast.CallExpr); ok && strings.HasPrefix(callName(c.Fun), "sched.queue.") {
					return
				}
			}
			if pending && !t.w.lastIs(x, "err") {
				t.w.ok = false
			}
			return
		default:
			if _, isDefer := s.(*ast.DeferStmt); !isDefer && lpHasQueueCall(s) {
				t.w.ok = false
			}
		}
	}
	if pending {
		t.w.ok = false
	}
}

// a nested block (under err == nil or a state test): queue calls must store their error in err, and
// a return inside must not drop a pending error
func (t *lpTop) nested(stmts []ast.Stmt) {
	pending := false
	for _, s := range stmts {
		switch x := s.(type) {
		case *ast.AssignStmt:
			if lpAssignsErrFromQueue(x) {
				pending = true
			} else if lpHasQueueCall(x) {
				t.w.ok = false
			}
		case *ast.IfStmt:
			if x.Init != nil && lpAssignsErrFromQueue(x.Init) {
				pending = true
			}
			t.nested(x.Body.List)
		case *ast.ReturnStmt:
			if pending && !t.w.lastIs(x, "err") {
				t.w.ok = false
			}
		default:
			if lpHasQueueCall(s) {
				t.w.ok = false
			}
		}
	}
}

func (t *lpTop) endsWithErrReturn(stmts []ast.Stmt) bool {
	if len(stmts) == 0 {
		return false
	}
	r, ok := stmts[len(stmts)-1].(*ast.ReturnStmt)
	return ok && t.w.lastIs(r, "err")
}

// Reset() is called only under `if err == nil` (or the else of `err != nil`) and `if sched.IsStarted()`
func lpResetGuarded(fd *ast.FuncDecl) (found bool, guarded bool) {
	guarded = true
	var visit func(n ast.Node, errNil, started bool)
	visit = func(n ast.Node, errNil, started bool) {
		switch x := n.(type) {
		case *ast.IfStmt:
			en, st := errNil, started
			if lpIsErrNil(x.Cond, token.EQL) {
				en = true
			}
			if lpIsCall(x.Cond, "sched.IsStarted") != nil {
				st = true
			}
			if x.Init != nil {
				visit(x.Init, errNil, started)
			}
			visit(x.Body, en, st)
			if x.Else != nil {
				visit(x.Else, errNil || lpIsErrNil(x.Cond, token.NEQ), started)
			}
			return
		case *ast.CallExpr:
			if callName(x.Fun) == "sched.Reset" {
				found = true
				if !(errNil && started) {
					guarded = false
				}
			}
		}
		if n == nil {
			return
		}
		// generic descent
		ast.Inspect(n, func(c ast.Node) bool {
			if c == n || c == nil {
				return true
			}
			switch c.(type) {
			case *ast.IfStmt, *ast.CallExpr:
				visit(c, errNil, started)
				return false
			}
			return true
		})
	}
	visit(fd.Body, false, false)
	return
}

// a select arm may begin with `if ctx.Err() != nil { ...; return }`: (it does, the block calls
// sched.Reset(), the first statement is an if at all)
func lpCtxCheck(body []ast.Stmt) (checks bool, resets bool, isIf bool) {
	if len(body) == 0 {
		return false, false, false
	}
	is, ok := body[0].(*ast.IfStmt)
	if !ok {
		return false, false, false
	}
	l, op, r, okc := lpCmp(is.Cond)
	if !okc || l != "ctx.Err()" || op != token.NEQ || r != "nil" || is.Else != nil || is.Init != nil || len(is.Body.List) == 0 {
		die("startExecutionLoop: a select arm starts with an if statement that is not `if ctx.Err() != nil {`")
	}
	ret, ok := is.Body.List[len(is.Body.List)-1].(*ast.ReturnStmt)
	if !ok || len(ret.Results) != 0 {
		die("startExecutionLoop: the ctx.Err() check of a select arm does not end in return")
	}
	for _, s := range is.Body.List[:len(is.Body.List)-1] {
		es, ok := s.(*ast.ExprStmt)
		if !ok {
			die("startExecutionLoop: unexpected statement in the ctx.Err() check of a select arm")
		}
		c, ok := es.X.(*ast.CallExpr)
		if !ok {
			die("startExecutionLoop: unexpected statement in the ctx.Err() check of a select arm")
		}
		n := callName(c.Fun)
		switch {
		case n == "sched.Reset":
			resets = true
		case strings.HasPrefix(n, "sched.logger."), n == "timer.Stop":
		default:
			die("startExecutionLoop: the ctx.Err() check of a select arm calls %s", n)
		}
	}
	return true, resets, true
}

func genLoop(o *out) {
	f := parse("quartz/scheduler.go")
	o.line("From Coq Require Import ZArith String List.")
	o.line("Import ListNotations.")
	o.line("Local Open Scope Z_scope.")
	o.line("Local Open Scope string_scope.")
	o.line("")
	o.line("Inductive cmp_op := OpGe | OpGt | OpLe | OpLt | OpEq | OpNe.")
	o.line("(* guards of the switch at the top of the execution loop, and what the timer is reset to *)")
	o.line("Inductive arm_guard := GSizeErr | GFetchFailed | GSizeZero | GDefault.")
	o.line("Inductive arm_timer := TRetryInterval | TMaxDuration | TNextTick | TZero.")
	o.line("(* how executeAndReschedule hands a valid job over *)")
	o.line("Inductive mode_guard := MBlocking | MWorkerLimitPos | MDefault.")
	o.line("Inductive mode_action := DInline | DSendDispatch | DGoroutine.")
	o.line("")

	// ---------------- startExecutionLoop ----------------
	lp := f.method("StdScheduler", "startExecutionLoop")
	body := lp.Body.List
	defersDone := false
	if ds, ok := body[0].(*ast.DeferStmt); ok && callName(ds.Call.Fun) == "sched.wg.Done" {
		defersDone = true
	}
	var maxDur int64
	var forStmt *ast.ForStmt
	sawTimer, sawFF := false, false
	for _, s := range body {
		switch x := s.(type) {
		case *ast.DeclStmt:
			g := x.Decl.(*ast.GenDecl)
			for _, sp := range g.Specs {
				vs := sp.(*ast.ValueSpec)
				if len(vs.Names) == 1 && vs.Names[0].Name == "maxTimerDuration" && len(vs.Values) == 1 {
					maxDur = f.intOf(vs.Values[0])
				}
			}
		case *ast.AssignStmt:
			if len(x.Lhs) == 1 && len(x.Rhs) == 1 {
				if lpRender(x.Lhs[0]) == "timer" {
					c := lpIsCall(x.Rhs[0], "time.NewTimer")
					if c == nil || lpRender(c.Args[0]) != "maxTimerDuration" {
						die("startExecutionLoop: timer is not time.NewTimer(maxTimerDuration)")
					}
					sawTimer = true
				}
				if lpRender(x.Lhs[0]) == "fetchFailed" && lpRender(x.Rhs[0]) == "false" {
					sawFF = true
				}
			}
		case *ast.ForStmt:
			forStmt = x
		}
	}
	if maxDur == 0 || forStmt == nil || !sawTimer {
		die("startExecutionLoop: maxTimerDuration / timer / for loop not found")
	}
	if forStmt.Cond != nil || forStmt.Init != nil || forStmt.Post != nil {
		die("startExecutionLoop: expected `for {`")
	}
	fb := forStmt.Body.List
	if len(fb) != 4 {
		die("startExecutionLoop: expected four statements in the loop body (Size, switch, fetchFailed = false, select), found %d", len(fb))
	}
	sizeFirst := false
	if as, ok := fb[0].(*ast.AssignStmt); ok && len(as.Rhs) == 1 && lpIsCall(as.Rhs[0], "sched.queue.Size") != nil &&
		len(as.Lhs) == 2 && lpRender(as.Lhs[0]) == "queueSize" && lpRender(as.Lhs[1]) == "err" {
		sizeFirst = true
	}
	if !sizeFirst {
		die("startExecutionLoop: the loop body does not start with `queueSize, err := sched.queue.Size()`")
	}
	sw, ok := fb[1].(*ast.SwitchStmt)
	if !ok || sw.Tag != nil || sw.Init != nil {
		die("startExecutionLoop: expected a tagless switch after Size()")
	}
	var arms [][2]string
	var defArm *[2]string
	for _, cs := range sw.Body.List {
		cc := cs.(*ast.CaseClause)
		resets := lpCalls(cc, "timer.Reset")
		direct := 0
		for _, st := range cc.Body {
			if es, ok := st.(*ast.ExprStmt); ok && lpIsCall(es.X, "timer.Reset") != nil {
				direct++
			}
		}
		if len(resets) != 1 || len(resets[0].Args) != 1 || direct != 1 {
			die("startExecutionLoop: a switch arm does not call timer.Reset exactly once, unconditionally")
		}
		tm := lpTimerArm(f, resets[0].Args[0], "startExecutionLoop")
		if cc.List == nil {
			defArm = &[2]string{"GDefault", tm}
			continue
		}
		if len(cc.List) != 1 {
			die("startExecutionLoop: switch arm with several expressions")
		}
		g := ""
		if l, op, r, ok := lpCmp(cc.List[0]); ok {
			switch {
			case l == "err" && op == token.NEQ && r == "nil":
				g = "GSizeErr"
			case l == "queueSize" && op == token.EQL && r == "0":
				g = "GSizeZero"
			}
		} else if lpRender(cc.List[0]) == "fetchFailed" {
			if !sawFF {
				die("startExecutionLoop: fetchFailed is not initialised to false")
			}
			g = "GFetchFailed"
		}
		if g == "" {
			die("startExecutionLoop: cannot classify switch guard %s", lpRender(cc.List[0]))
		}
		arms = append(arms, [2]string{g, tm})
	}
	if defArm != nil {
		arms = append(arms, *defArm)
	}
	clearsFF := false
	if as, ok := fb[2].(*ast.AssignStmt); ok && len(as.Lhs) == 1 && lpRender(as.Lhs[0]) == "fetchFailed" && lpRender(as.Rhs[0]) == "false" && as.Tok == token.ASSIGN {
		clearsFF = true
	} else {
		die("startExecutionLoop: expected `fetchFailed = false` before the select")
	}
	sel, ok := fb[3].(*ast.SelectStmt)
	if !ok || len(sel.Body.List) != 3 {
		die("startExecutionLoop: expected a select with three cases")
	}
	tickFetches, tickSets, tokRecomputes, doneReturns := false, false, false, false
	tickChecksCtx, tokChecksCtx, tokGivesBack := false, false, false
	seen := map[string]bool{}
	for _, c := range sel.Body.List {
		cc := c.(*ast.CommClause)
		switch lpCommRecv(cc) {
		case "timer.C":
			seen["tick"] = true
			body := cc.Body
			if chk, _, ok := lpCtxCheck(body); ok {
				tickChecksCtx = chk
				body = body[1:]
			}
			for _, s := range body {
				if as, ok := s.(*ast.AssignStmt); ok && len(as.Lhs) == 1 && lpRender(as.Lhs[0]) == "fetchFailed" && len(as.Rhs) == 1 {
					if u, ok := unparen(as.Rhs[0]).(*ast.UnaryExpr); ok && u.Op == token.NOT && lpIsCall(u.X, "sched.executeAndReschedule") != nil {
						tickSets = true
					}
				}
			}
			n := 0
			for _, s := range cc.Body {
				n += len(lpCalls(s, "sched.executeAndReschedule"))
			}
			tickFetches = n == 1
		case "sched.interrupt":
			seen["tok"] = true
			body := cc.Body
			if chk, gives, ok := lpCtxCheck(body); ok {
				tokChecksCtx, tokGivesBack = chk, gives
				body = body[1:]
			}
			tokRecomputes = true
			for _, s := range body {
				es, ok := s.(*ast.ExprStmt)
				if !ok {
					tokRecomputes = false
					continue
				}
				c, ok := es.X.(*ast.CallExpr)
				if !ok {
					tokRecomputes = false
					continue
				}
				n := callName(c.Fun)
				if !(strings.HasPrefix(n, "sched.logger.") || n == "timer.Stop") {
					tokRecomputes = false
				}
			}
		case "ctx.Done()":
			seen["done"] = true
			if len(cc.Body) > 0 {
				if r, ok := cc.Body[len(cc.Body)-1].(*ast.ReturnStmt); ok && len(r.Results) == 0 {
					doneReturns = true
				}
			}
		default:
			die("startExecutionLoop: unexpected select case")
		}
	}
	if !seen["tick"] || !seen["tok"] || !seen["done"] {
		die("startExecutionLoop: select does not have the timer, interrupt and ctx.Done cases")
	}
	o.line("(* startExecutionLoop *)")
	o.line("Definition max_timer_duration : Z := %s.", coqZ(maxDur))
	o.line("Definition loop_size_first : bool := %s.", coqBool(sizeFirst))
	o.line("Definition loop_switch : list (arm_guard * arm_timer) := %s.", coqPairList(arms))
	o.line("Definition loop_clears_fetch_failed : bool := %s.", coqBool(clearsFF))
	o.line("Definition select_tick_fetches : bool := %s.", coqBool(tickFetches))
	o.line("Definition select_tick_sets_fetch_failed : bool := %s.", coqBool(tickSets))
	o.line("Definition select_interrupt_recomputes : bool := %s.", coqBool(tokRecomputes))
	o.line("Definition select_tick_checks_ctx : bool := %s.", coqBool(tickChecksCtx))
	o.line("Definition select_interrupt_checks_ctx : bool := %s.", coqBool(tokChecksCtx))
	o.line("Definition select_interrupt_gives_token_back : bool := %s.", coqBool(tokGivesBack))
	o.line("Definition select_done_returns : bool := %s.", coqBool(doneReturns))
	o.line("Definition loop_defers_wg_done : bool := %s.", coqBool(defersDone))

	// ---------------- calculateNextTick ----------------
	ct := f.method("StdScheduler", "calculateNextTick")
	cb := ct.Body.List
	zeroVar := false
	if ds, ok := cb[0].(*ast.DeclStmt); ok {
		vs := ds.Decl.(*ast.GenDecl).Specs[0].(*ast.ValueSpec)
		if len(vs.Names) == 1 && vs.Names[0].Name == "nextTickDuration" && len(vs.Values) == 0 {
			zeroVar = true
		}
	}
	if !zeroVar {
		die("calculateNextTick: expected `var nextTickDuration time.Duration`")
	}
	if as, ok := cb[1].(*ast.AssignStmt); !ok || len(as.Rhs) != 1 || lpIsCall(as.Rhs[0], "sched.queue.Head") == nil {
		die("calculateNextTick: expected `scheduledJob, err := sched.queue.Head()`")
	}
	ifErr, ok := cb[2].(*ast.IfStmt)
	if !ok || !lpIsErrNil(ifErr.Cond, token.NEQ) || len(ifErr.Body.List) < 2 {
		die("calculateNextTick: expected `if err != nil {` after Head()")
	}
	retArm := func(r *ast.ReturnStmt) string {
		if len(r.Results) != 1 {
			die("calculateNextTick: unexpected return")
		}
		switch lpRender(r.Results[0]) {
		case "nextTickDuration":
			return "TZero" // still the zero value here
		case "sched.opts.RetryInterval":
			return "TRetryInterval"
		case "0":
			return "TZero"
		}
		die("calculateNextTick: cannot classify return value %s", lpRender(r.Results[0]))
		return ""
	}
	emptyArm, errArm := "", ""
	if ie, ok := ifErr.Body.List[0].(*ast.IfStmt); ok {
		c := lpIsCall(ie.Cond, "errors.Is")
		if c != nil && len(c.Args) == 2 && lpRender(c.Args[0]) == "err" && lpRender(c.Args[1]) == "ErrQueueEmpty" {
			if r, ok := ie.Body.List[len(ie.Body.List)-1].(*ast.ReturnStmt); ok {
				emptyArm = retArm(r)
			}
		}
	}
	if r, ok := ifErr.Body.List[len(ifErr.Body.List)-1].(*ast.ReturnStmt); ok {
		errArm = retArm(r)
	}
	if emptyArm == "" || errArm == "" {
		die("calculateNextTick: error branch does not have the expected shape")
	}
	// nextRunTime := scheduledJob.NextRunTime(); now := NowNano(); if nextRunTime > now { nextTickDuration = time.Duration(nextRunTime - now) }
	tickCmp := ""
	sawNrt, sawNow := false, false
	for _, s := range cb[3:] {
		switch x := s.(type) {
		case *ast.AssignStmt:
			if len(x.Lhs) == 1 && len(x.Rhs) == 1 {
				if lpRender(x.Lhs[0]) == "nextRunTime" && lpIsCall(x.Rhs[0], "scheduledJob.NextRunTime") != nil {
					sawNrt = true
				}
				if lpRender(x.Lhs[0]) == "now" && lpIsCall(x.Rhs[0], "NowNano") != nil {
					sawNow = true
				}
			}
		case *ast.IfStmt:
			l, op, r, ok := lpCmp(x.Cond)
			if !ok || x.Else != nil || len(x.Body.List) != 1 {
				die("calculateNextTick: unexpected if statement")
			}
			if l == "now" && r == "nextRunTime" { // mirrored
				l, r = r, l
				op = map[token.Token]token.Token{token.GTR: token.LSS, token.LSS: token.GTR, token.GEQ: token.LEQ, token.LEQ: token.GEQ}[op]
			}
			if l != "nextRunTime" || r != "now" {
				die("calculateNextTick: comparison is not between nextRunTime and now")
			}
			as, ok := x.Body.List[0].(*ast.AssignStmt)
			if !ok || lpRender(as.Lhs[0]) != "nextTickDuration" {
				die("calculateNextTick: the if body does not assign nextTickDuration")
			}
			conv, ok := unparen(as.Rhs[0]).(*ast.CallExpr)
			if !ok || len(conv.Args) != 1 {
				die("calculateNextTick: unexpected duration expression")
			}
			dl, dop, dr, ok := lpCmp(conv.Args[0])
			if !ok || dop != token.SUB || dl != "nextRunTime" || dr != "now" {
				die("calculateNextTick: duration is not nextRunTime - now")
			}
			tickCmp = cmpOp(op)
		}
	}
	last, ok := cb[len(cb)-1].(*ast.ReturnStmt)
	if !ok || len(last.Results) != 1 || lpRender(last.Results[0]) != "nextTickDuration" || tickCmp == "" || !sawNrt || !sawNow {
		die("calculateNextTick: tail does not have the expected shape")
	}
	o.line("(* calculateNextTick *)")
	o.line("Definition tick_head_empty : arm_timer := %s.", emptyArm)
	o.line("Definition tick_head_error : arm_timer := %s.", errArm)
	o.line("Definition tick_cmp : cmp_op := %s.", tickCmp)

	// ---------------- NewStdScheduler, Reset ----------------
	ns := f.method("", "NewStdScheduler")
	caps := map[string]int64{}
	ast.Inspect(ns.Body, func(n ast.Node) bool {
		kv, ok := n.(*ast.KeyValueExpr)
		if !ok {
			return true
		}
		k, ok := kv.Key.(*ast.Ident)
		if !ok {
			return true
		}
		if c := lpIsCall(kv.Value, "make"); c != nil {
			if _, isChan := c.Args[0].(*ast.ChanType); isChan {
				if len(c.Args) == 1 {
					caps[k.Name] = 0
				} else {
					caps[k.Name] = f.intOf(c.Args[1])
				}
			}
		}
		return true
	})
	ic, ok1 := caps["interrupt"]
	if !ok1 {
		die("NewStdScheduler: interrupt channel not found")
	}
	dc, sharedDispatch := caps["dispatch"]
	// per-run hand-over channel: `dispatch := make(chan ScheduledJob)` in Start, passed to the loop and the workers
	perRun := false
	stDecl := f.method("StdScheduler", "Start")
	for _, st := range stDecl.Body.List {
		if as, ok := st.(*ast.AssignStmt); ok && as.Tok == token.DEFINE && len(as.Lhs) == 1 && lpRender(as.Lhs[0]) == "dispatch" && len(as.Rhs) == 1 {
			if c := lpIsCall(as.Rhs[0], "make"); c != nil {
				if _, isChan := c.Args[0].(*ast.ChanType); isChan {
					if sharedDispatch {
						die("Start: a per-run dispatch channel next to the dispatch field of the scheduler")
					}
					perRun = true
					dc = 0
					if len(c.Args) > 1 {
						dc = f.intOf(c.Args[1])
					}
				}
			}
		}
	}
	if !sharedDispatch && !perRun {
		die("dispatch channel found neither in NewStdScheduler nor in Start")
	}
	dispName := "sched.dispatch"
	if perRun {
		dispName = "dispatch"
		// the channel must reach the loop, the workers and the hand-over
		passes := func(fn string, n ast.Node) bool {
			for _, c := range lpCalls(n, fn) {
				if len(c.Args) == 2 && lpRender(c.Args[1]) == "dispatch" {
					return true
				}
			}
			return false
		}
		if !passes("sched.startExecutionLoop", stDecl.Body) || !passes("sched.startWorkers", stDecl.Body) ||
			!passes("sched.executeAndReschedule", f.method("StdScheduler", "startExecutionLoop").Body) {
			die("Start: the per-run dispatch channel is not passed to startExecutionLoop / startWorkers / executeAndReschedule")
		}
		for _, fn := range []string{"startExecutionLoop", "startWorkers", "executeAndReschedule"} {
			fd := f.method("StdScheduler", fn)
			okp := false
			for _, fl := range fd.Type.Params.List {
				for _, nm := range fl.Names {
					if nm.Name == "dispatch" {
						okp = true
					}
				}
			}
			if !okp {
				die("%s: no parameter named dispatch", fn)
			}
		}
	}
	rs := f.method("StdScheduler", "Reset")
	nonblocking := false
	if len(rs.Body.List) == 1 {
		if s, ok := rs.Body.List[0].(*ast.SelectStmt); ok && len(s.Body.List) == 2 {
			send, def := false, false
			for _, c := range s.Body.List {
				cc := c.(*ast.CommClause)
				if cc.Comm == nil {
					def = true
				} else if lpCommSend(cc) == "sched.interrupt" {
					send = true
				}
			}
			nonblocking = send && def
		}
	}
	if !nonblocking {
		// a plain blocking send is a legal (different) shape: report it as such
		sendOnly := false
		if len(rs.Body.List) == 1 {
			if s, ok := rs.Body.List[0].(*ast.SendStmt); ok && callName(s.Chan) == "sched.interrupt" {
				sendOnly = true
			}
		}
		if !sendOnly {
			die("Reset: neither select{send; default} nor a plain send")
		}
	}
	o.line("(* NewStdScheduler, Reset *)")
	o.line("Definition interrupt_cap : Z := %s.", coqZ(ic))
	o.line("Definition dispatch_cap : Z := %s.", coqZ(dc))
	o.line("(* the hand-over channel is created by Start for each run (false: one channel field shared by all runs) *)")
	o.line("Definition dispatch_per_run : bool := %s.", coqBool(perRun))
	o.line("Definition reset_nonblocking : bool := %s.", coqBool(nonblocking))

	// ---------------- API methods ----------------
	apis := []string{"ScheduleJob", "GetJobKeys", "GetScheduledJob", "DeleteJob", "PauseJob", "ResumeJob", "Clear"}
	var qc, rg, pe [][2]string
	for _, m := range apis {
		fd := f.method("StdScheduler", m)
		var calls []string
		ast.Inspect(fd.Body, func(n ast.Node) bool {
			if c, ok := n.(*ast.CallExpr); ok {
				if nm := callName(c.Fun); strings.HasPrefix(nm, "sched.queue.") {
					calls = append(calls, coqStr(strings.TrimPrefix(nm, "sched.queue.")))
				}
			}
			return true
		})
		if len(calls) == 0 {
			die("%s: no queue call found", m)
		}
		// the queue calls must happen under the queue locker
		lockAt := lpIndex(fd.Body.List, func(s ast.Stmt) bool {
			es, ok := s.(*ast.ExprStmt)
			return ok && lpIsCall(es.X, "sched.queueLocker.Lock") != nil
		})
		firstQ := lpIndex(fd.Body.List, func(s ast.Stmt) bool { return lpHasQueueCall(s) })
		if lockAt < 0 || firstQ < lockAt {
			die("%s: queue calls are not made under sched.queueLocker", m)
		}
		qc = append(qc, [2]string{coqStr(m), "[" + strings.Join(calls, "; ") + "]"})
		found, guarded := lpResetGuarded(fd)
		if found {
			// the wake-up must follow the last queue call (the change is published before the loop is told)
			var lastQ, reset token.Pos
			ast.Inspect(fd.Body, func(n ast.Node) bool {
				if c, ok := n.(*ast.CallExpr); ok {
					nm := callName(c.Fun)
					if strings.HasPrefix(nm, "sched.queue.") && c.Pos() > lastQ {
						lastQ = c.Pos()
					}
					if nm == "sched.Reset" && (reset == 0 || c.Pos() < reset) {
						reset = c.Pos()
					}
				}
				return true
			})
			if reset < lastQ {
				guarded = false
			}
		}
		if found {
			rg = append(rg, [2]string{coqStr(m), coqBool(guarded)})
		} else if m != "GetJobKeys" && m != "GetScheduledJob" {
			rg = append(rg, [2]string{coqStr(m), "false"}) // a mutating method that never calls Reset()
		}
		pe = append(pe, [2]string{coqStr(m), coqBool(lpPropagates(fd))})
	}
	o.line("(* API methods: queue calls in order; Reset() only after success, after the last queue call and only if IsStarted() *)")
	o.line("Definition api_queue_calls : list (string * list string) := %s.", coqPairList(qc))
	o.line("Definition api_reset_guarded : list (string * bool) := %s.", coqPairList(rg))
	o.line("Definition api_returns_queue_error : list (string * bool) := %s.", coqPairList(pe))

	// ---------------- fetchAndReschedule ----------------
	fr := f.method("StdScheduler", "fetchAndReschedule")
	var fcalls []string
	ast.Inspect(fr.Body, func(n ast.Node) bool {
		if c, ok := n.(*ast.CallExpr); ok {
			if nm := callName(c.Fun); strings.HasPrefix(nm, "sched.queue.") {
				fcalls = append(fcalls, coqStr(strings.TrimPrefix(nm, "sched.queue.")))
			}
		}
		return true
	})
	underLocker := lpLockPrefix(fr.Body.List, "sched.queueLocker")
	// Pop error branch
	popErr := false
	for i, s := range fr.Body.List {
		if as, ok := s.(*ast.AssignStmt); ok && len(as.Rhs) == 1 && lpIsCall(as.Rhs[0], "sched.queue.Pop") != nil && i+1 < len(fr.Body.List) {
			if is, ok := fr.Body.List[i+1].(*ast.IfStmt); ok && lpIsErrNil(is.Cond, token.NEQ) && len(is.Body.List) > 0 {
				if r, ok := is.Body.List[len(is.Body.List)-1].(*ast.ReturnStmt); ok && len(r.Results) == 3 && lpRender(r.Results[2]) == "err" {
					popErr = true
				}
			}
		}
	}
	// Reset after a successful push-back
	resetAfterPush := false
	ast.Inspect(fr.Body, func(n ast.Node) bool {
		is, ok := n.(*ast.IfStmt)
		if !ok || is.Init == nil {
			return true
		}
		as, ok := is.Init.(*ast.AssignStmt)
		if !ok || len(as.Rhs) != 1 || lpIsCall(as.Rhs[0], "sched.queue.Push") == nil {
			return true
		}
		switch {
		case lpIsErrNil(is.Cond, token.NEQ) && is.Else != nil:
			resetAfterPush = lpHasCall(is.Else, "sched.Reset") && !lpHasCall(is.Body, "sched.Reset")
		case lpIsErrNil(is.Cond, token.EQL):
			resetAfterPush = lpHasCall(is.Body, "sched.Reset")
		}
		return true
	})
	if len(lpCalls(fr.Body, "sched.Reset")) > 1 {
		die("fetchAndReschedule: more than one Reset() call")
	}
	o.line("(* fetchAndReschedule *)")
	o.line("Definition fetch_queue_calls : list string := [%s].", strings.Join(fcalls, "; "))
	o.line("Definition fetch_under_locker : bool := %s.", coqBool(underLocker))
	o.line("Definition fetch_resets_after_push : bool := %s.", coqBool(resetAfterPush))
	o.line("Definition fetch_pop_error_returns_error : bool := %s.", coqBool(popErr))

	// ---------------- executeAndReschedule ----------------
	ex := f.method("StdScheduler", "executeAndReschedule")
	eb := ex.Body.List
	if as, ok := eb[0].(*ast.AssignStmt); !ok || len(as.Rhs) != 1 || lpIsCall(as.Rhs[0], "sched.fetchAndReschedule") == nil || len(as.Lhs) != 3 || lpRender(as.Lhs[2]) != "err" {
		die("executeAndReschedule: expected `scheduled, valid, err := sched.fetchAndReschedule()`")
	}
	falseOnErr := false
	if is, ok := eb[1].(*ast.IfStmt); ok && lpIsErrNil(is.Cond, token.NEQ) && len(is.Body.List) == 1 {
		if r, ok := is.Body.List[0].(*ast.ReturnStmt); ok && len(r.Results) == 1 && lpRender(r.Results[0]) == "false" {
			falseOnErr = true
		}
	}
	o.line("Definition exec_returns_false_on_fetch_error : bool := %s.", coqBool(falseOnErr))
	var msw *ast.SwitchStmt
	for _, s := range eb[2:] {
		if is, ok := s.(*ast.IfStmt); ok && lpRender(is.Cond) == "valid" {
			for _, t := range is.Body.List {
				if x, ok := t.(*ast.SwitchStmt); ok && x.Tag == nil {
					msw = x
				}
			}
		}
	}
	if msw == nil {
		die("executeAndReschedule: `if valid { switch {` not found")
	}
	var modes [][2]string
	var defMode *[2]string
	sendSelDone, goAddFirst := true, true
	for _, cs := range msw.Body.List {
		cc := cs.(*ast.CaseClause)
		g := ""
		if cc.List == nil {
			g = "MDefault"
		} else if len(cc.List) == 1 {
			if lpRender(cc.List[0]) == "sched.opts.BlockingExecution" {
				g = "MBlocking"
			} else if l, op, r, ok := lpCmp(cc.List[0]); ok && l == "sched.opts.WorkerLimit" && op == token.GTR && r == "0" {
				g = "MWorkerLimitPos"
			}
		}
		if g == "" {
			die("executeAndReschedule: cannot classify the dispatch guard")
		}
		act := ""
		goIdx := lpIndex(cc.Body, lpIsGo)
		selIdx := lpIndex(cc.Body, func(s ast.Stmt) bool { _, ok := s.(*ast.SelectStmt); return ok })
		switch {
		case goIdx >= 0:
			gs := cc.Body[goIdx].(*ast.GoStmt)
			fl, ok := gs.Call.Fun.(*ast.FuncLit)
			if !ok || !lpHasCall(fl.Body, "sched.executeWithRetries") {
				die("executeAndReschedule: goroutine does not run executeWithRetries")
			}
			act = "DGoroutine"
			addIdx := lpIndex(cc.Body, lpIsWgAdd)
			doneDeferred := false
			if len(fl.Body.List) > 0 {
				if ds, ok := fl.Body.List[0].(*ast.DeferStmt); ok && callName(ds.Call.Fun) == "sched.wg.Done" {
					doneDeferred = true
				}
			}
			if !doneDeferred {
				die("executeAndReschedule: job goroutine does not defer sched.wg.Done()")
			}
			if addIdx < 0 {
				// Add inside the goroutine?
				if !lpHasCall(fl.Body, "sched.wg.Add") {
					die("executeAndReschedule: no sched.wg.Add for the job goroutine")
				}
				goAddFirst = false
			} else if addIdx > goIdx {
				goAddFirst = false
			}
		case selIdx >= 0:
			s := cc.Body[selIdx].(*ast.SelectStmt)
			send, done := false, false
			for _, c := range s.Body.List {
				k := c.(*ast.CommClause)
				if lpCommSend(k) == dispName {
					send = true
				}
				if lpCommRecv(k) == "ctx.Done()" {
					done = true
				}
			}
			if !send {
				die("executeAndReschedule: select without a send on %s", dispName)
			}
			act = "DSendDispatch"
			sendSelDone = done
		default:
			n := 0
			for _, s := range cc.Body {
				if ss, ok := s.(*ast.SendStmt); ok && callName(ss.Chan) == dispName {
					act = "DSendDispatch"
					sendSelDone = false
				}
				n += len(lpCalls(s, "sched.executeWithRetries"))
			}
			if act == "" {
				if n != 1 {
					die("executeAndReschedule: cannot classify a dispatch arm")
				}
				act = "DInline"
			}
		}
		if g == "MDefault" {
			defMode = &[2]string{g, act}
		} else {
			modes = append(modes, [2]string{g, act})
		}
	}
	if defMode != nil {
		modes = append(modes, *defMode)
	}
	// ---------------- startWorkers ----------------
	swk := f.method("StdScheduler", "startWorkers")
	wguard := false
	var wfor *ast.ForStmt
	if len(swk.Body.List) == 1 {
		if is, ok := swk.Body.List[0].(*ast.IfStmt); ok {
			if b, ok := unparen(is.Cond).(*ast.BinaryExpr); ok && b.Op == token.LAND {
				nb := false
				if u, ok := unparen(b.X).(*ast.UnaryExpr); ok && u.Op == token.NOT && lpRender(u.X) == "sched.opts.BlockingExecution" {
					nb = true
				}
				l, op, r, ok := lpCmp(b.Y)
				wguard = nb && ok && l == "sched.opts.WorkerLimit" && op == token.GTR && r == "0"
			}
			for _, s := range is.Body.List {
				if x, ok := s.(*ast.ForStmt); ok {
					wfor = x
				}
			}
		}
	}
	if !wguard || wfor == nil {
		die("startWorkers: expected `if !BlockingExecution && WorkerLimit > 0 { for ...`")
	}
	ini, ok := wfor.Init.(*ast.AssignStmt)
	if !ok || len(ini.Lhs) != 1 || lpRender(ini.Lhs[0]) != "i" {
		die("startWorkers: unexpected loop init")
	}
	wInit := f.intOf(ini.Rhs[0])
	wl, wop, wr, ok := lpCmp(wfor.Cond)
	if !ok || wl != "i" || wr != "sched.opts.WorkerLimit" {
		die("startWorkers: loop condition is not `i <op> sched.opts.WorkerLimit`")
	}
	if inc, ok := wfor.Post.(*ast.IncDecStmt); !ok || inc.Tok != token.INC {
		die("startWorkers: loop post is not i++")
	}
	wAdd := lpIndex(wfor.Body.List, lpIsWgAdd)
	wGo := lpIndex(wfor.Body.List, lpIsGo)
	if wGo < 0 {
		die("startWorkers: no go statement in the loop")
	}
	wfl, ok := wfor.Body.List[wGo].(*ast.GoStmt).Call.Fun.(*ast.FuncLit)
	if !ok {
		die("startWorkers: worker is not a function literal")
	}
	wAddFirst := wAdd >= 0 && wAdd < wGo
	if wAdd < 0 && !lpHasCall(wfl.Body, "sched.wg.Add") {
		die("startWorkers: no sched.wg.Add for the worker")
	}
	if ds, ok := wfl.Body.List[0].(*ast.DeferStmt); !ok || callName(ds.Call.Fun) != "sched.wg.Done" {
		die("startWorkers: worker does not defer sched.wg.Done()")
	}
	wSel, wRuns := false, false
	ast.Inspect(wfl.Body, func(n ast.Node) bool {
		s, ok := n.(*ast.SelectStmt)
		if !ok {
			return true
		}
		done, disp := false, false
		for _, c := range s.Body.List {
			k := c.(*ast.CommClause)
			switch lpCommRecv(k) {
			case "ctx.Done()":
				if len(k.Body) == 1 {
					if _, ok := k.Body[0].(*ast.ReturnStmt); ok {
						done = true
					}
				}
			case dispName:
				disp = true
				n := 0
				for _, st := range k.Body {
					n += len(lpCalls(st, "sched.executeWithRetries"))
					if lpIsGo(st) {
						n += 100
					}
				}
				wRuns = n == 1
			}
		}
		wSel = done && disp && len(s.Body.List) == 2
		return true
	})
	o.line("(* executeAndReschedule, startWorkers *)")
	o.line("Definition exec_modes : list (mode_guard * mode_action) := %s.", coqPairList(modes))
	o.line("Definition dispatch_send_selects_done : bool := %s.", coqBool(sendSelDone))
	o.line("Definition goroutine_wg_add_before_go : bool := %s.", coqBool(goAddFirst))
	o.line("Definition workers_guard_nonblocking_and_limit_pos : bool := %s.", coqBool(wguard))
	o.line("Definition workers_loop_init : Z := %s.", coqZ(wInit))
	o.line("Definition workers_loop_cmp : cmp_op := %s.", cmpOp(wop))
	o.line("Definition workers_wg_add_before_go : bool := %s.", coqBool(wAddFirst))
	o.line("Definition worker_selects_done_and_dispatch : bool := %s.", coqBool(wSel))
	o.line("Definition worker_runs_execute_with_retries : bool := %s.", coqBool(wRuns))

	// ---------------- executeWithRetries ----------------
	er := f.method("StdScheduler", "executeWithRetries")
	rb := er.Body.List
	recoverFirst := false
	if ds, ok := rb[0].(*ast.DeferStmt); ok {
		if fl, ok := ds.Call.Fun.(*ast.FuncLit); ok && lpHasCall(fl.Body, "recover") {
			recoverFirst = true
		}
	}
	if !recoverFirst && lpHasCall(er.Body, "recover") {
		// recover exists but is not the first deferred statement around the whole body
		recoverFirst = false
	}
	// the job is user code: the model knows one call into it, Execute, made under the deferred recover; any other
	// method of the job called here (in the recover handler, in a log argument) is a second place where user
	// code can panic, and it is not modelled
	ast.Inspect(er.Body, func(n ast.Node) bool {
		if c, ok := n.(*ast.CallExpr); ok {
			if sel, ok := c.Fun.(*ast.SelectorExpr); ok && lpRender(sel.X) == "jobDetail.job" && sel.Sel.Name != "Execute" {
				die("executeWithRetries: calls jobDetail.job.%s(): user code other than Execute runs here (a panic in it is not covered by the model of the deferred recover)", sel.Sel.Name)
			}
		}
		return true
	})
	idx := 0
	if recoverFirst {
		idx = 1
	}
	if as, ok := rb[idx].(*ast.AssignStmt); !ok || len(as.Rhs) != 1 || lpIsCall(as.Rhs[0], "jobDetail.job.Execute") == nil || lpRender(as.Lhs[0]) != "err" {
		die("executeWithRetries: expected `err := jobDetail.job.Execute(ctx)`")
	}
	firstReturns := false
	if is, ok := rb[idx+1].(*ast.IfStmt); ok && lpIsErrNil(is.Cond, token.EQL) && len(is.Body.List) == 1 {
		if r, ok := is.Body.List[0].(*ast.ReturnStmt); ok && len(r.Results) == 0 {
			firstReturns = true
		}
	}
	var rfor *ast.ForStmt
	rlabel := ""
	for _, s := range rb[idx+1:] {
		switch x := s.(type) {
		case *ast.LabeledStmt:
			if fs, ok := x.Stmt.(*ast.ForStmt); ok {
				rfor, rlabel = fs, x.Label.Name
			}
		case *ast.ForStmt:
			rfor = x
		}
	}
	if rfor == nil {
		die("executeWithRetries: retry loop not found")
	}
	rini, ok := rfor.Init.(*ast.AssignStmt)
	if !ok || len(rini.Lhs) != 1 {
		die("executeWithRetries: unexpected loop init")
	}
	iv := lpRender(rini.Lhs[0])
	rInit := f.intOf(rini.Rhs[0])
	rl, rop, rr, ok := lpCmp(rfor.Cond)
	if !ok || rl != iv || rr != "jobDetail.opts.MaxRetries" {
		die("executeWithRetries: loop condition is not `%s <op> jobDetail.opts.MaxRetries`", iv)
	}
	if inc, ok := rfor.Post.(*ast.IncDecStmt); !ok || inc.Tok != token.INC || lpRender(inc.X) != iv {
		die("executeWithRetries: loop post is not %s++", iv)
	}
	waitsTimer, selDone, doneBreaks, breaksOnSuccess := false, false, false, false
	execAt, selAt := -1, -1
	for i, s := range rfor.Body.List {
		switch x := s.(type) {
		case *ast.AssignStmt:
			if len(x.Rhs) == 1 {
				if c := lpIsCall(x.Rhs[0], "time.NewTimer"); c != nil && lpRender(c.Args[0]) == "jobDetail.opts.RetryInterval" && lpRender(x.Lhs[0]) == "timer" {
					waitsTimer = true
				}
				if lpIsCall(x.Rhs[0], "jobDetail.job.Execute") != nil && lpRender(x.Lhs[0]) == "err" {
					execAt = i
				}
			}
		case *ast.SelectStmt:
			selAt = i
			tick := false
			for _, c := range x.Body.List {
				k := c.(*ast.CommClause)
				switch lpCommRecv(k) {
				case "timer.C":
					tick = true
				case "ctx.Done()":
					selDone = true
					for _, st := range k.Body {
						if b, ok := st.(*ast.BranchStmt); ok && b.Tok == token.BREAK && b.Label != nil && b.Label.Name == rlabel {
							doneBreaks = true
						}
						if _, ok := st.(*ast.ReturnStmt); ok {
							doneBreaks = true
						}
					}
				}
			}
			waitsTimer = waitsTimer && tick
		case *ast.IfStmt:
			if lpIsErrNil(x.Cond, token.EQL) && len(x.Body.List) == 1 && execAt >= 0 {
				if b, ok := x.Body.List[0].(*ast.BranchStmt); ok && b.Tok == token.BREAK {
					breaksOnSuccess = true
				}
			}
		}
	}
	if execAt < 0 {
		die("executeWithRetries: the loop does not call Execute")
	}
	if selAt < 0 || selAt > execAt {
		waitsTimer = false // no wait before the attempt
	}
	o.line("(* executeWithRetries *)")
	o.line("Definition retry_recover_deferred_first : bool := %s.", coqBool(recoverFirst))
	o.line("Definition retry_first_attempt_returns_on_success : bool := %s.", coqBool(firstReturns))
	o.line("Definition retry_loop_init : Z := %s.", coqZ(rInit))
	o.line("Definition retry_loop_cmp : cmp_op := %s.", cmpOp(rop))
	o.line("Definition retry_waits_interval_timer : bool := %s.", coqBool(waitsTimer))
	o.line("Definition retry_wait_selects_done : bool := %s.", coqBool(selDone))
	o.line("Definition retry_done_breaks_loop : bool := %s.", coqBool(doneBreaks))
	o.line("Definition retry_breaks_on_success : bool := %s.", coqBool(breaksOnSuccess))

	// ---------------- Start, Stop, stopRun, stop, Wait ----------------
	st := f.method("StdScheduler", "Start")
	sb := st.Body.List
	startMtx := lpLockPrefix(sb, "sched.mtx")
	retIfStarted, incRun, watcherStopRun, loopAddFirst, setsStarted := false, false, false, false, false
	watcherFound := false
	addAt, goLoopAt := -1, -1
	for i, s := range sb {
		switch x := s.(type) {
		case *ast.IfStmt:
			if lpRender(x.Cond) == "sched.started" && len(x.Body.List) > 0 {
				if _, ok := x.Body.List[len(x.Body.List)-1].(*ast.ReturnStmt); ok {
					retIfStarted = true
				}
			}
		case *ast.IncDecStmt:
			if x.Tok == token.INC && lpRender(x.X) == "sched.run" {
				incRun = true
			}
		case *ast.GoStmt:
			if fl, ok := x.Call.Fun.(*ast.FuncLit); ok {
				// the watcher: <-ctx.Done(); sched.stopRun(run)   (or sched.Stop())
				if len(fl.Body.List) == 2 {
					if es, ok := fl.Body.List[0].(*ast.ExprStmt); ok {
						if u, ok := es.X.(*ast.UnaryExpr); ok && u.Op == token.ARROW && callName(u.X) == "ctx.Done()" {
							watcherFound = true
							if c := lpCalls(fl.Body.List[1], "sched.stopRun"); len(c) == 1 && len(c[0].Args) == 1 && lpRender(c[0].Args[0]) == "run" {
								watcherStopRun = true
							} else if !lpHasCall(fl.Body.List[1], "sched.Stop") {
								die("Start: the watcher calls neither stopRun(run) nor Stop()")
							}
						}
					}
				}
			} else if callName(x.Call.Fun) == "sched.startExecutionLoop" {
				goLoopAt = i
			}
		case *ast.ExprStmt:
			if lpIsCall(x.X, "sched.wg.Add") != nil && addAt < 0 {
				addAt = i
			}
		case *ast.AssignStmt:
			if len(x.Lhs) == 1 && lpRender(x.Lhs[0]) == "sched.started" && lpRender(x.Rhs[0]) == "true" {
				setsStarted = true
			}
		}
	}
	if !watcherFound || goLoopAt < 0 {
		die("Start: watcher goroutine or `go sched.startExecutionLoop(ctx)` not found")
	}
	if watcherStopRun {
		// run := sched.run must follow sched.run++
		okRun := false
		for _, s := range sb {
			if as, ok := s.(*ast.AssignStmt); ok && len(as.Lhs) == 1 && lpRender(as.Lhs[0]) == "run" && lpRender(as.Rhs[0]) == "sched.run" {
				okRun = true
			}
		}
		if !okRun {
			die("Start: `run := sched.run` not found")
		}
	}
	loopAddFirst = addAt >= 0 && addAt < goLoopAt
	if addAt < 0 {
		loopAddFirst = false
	}
	sp := f.method("StdScheduler", "Stop")
	stopMtx := lpLockPrefix(sp.Body.List, "sched.mtx") && lpHasCall(sp.Body, "sched.stop")
	sr := f.method("StdScheduler", "stopRun")
	srMtx := lpLockPrefix(sr.Body.List, "sched.mtx")
	srCmp := ""
	pname := ""
	if len(sr.Type.Params.List) == 1 && len(sr.Type.Params.List[0].Names) == 1 {
		pname = sr.Type.Params.List[0].Names[0].Name
	}
	for _, s := range sr.Body.List {
		if is, ok := s.(*ast.IfStmt); ok && lpHasCall(is.Body, "sched.stop") {
			l, op, r, ok := lpCmp(is.Cond)
			if !ok {
				die("stopRun: guard is not a comparison")
			}
			if l == pname && r == "sched.run" {
				l, r = r, l
				op = map[token.Token]token.Token{token.EQL: token.EQL, token.NEQ: token.NEQ, token.GTR: token.LSS, token.LSS: token.GTR, token.GEQ: token.LEQ, token.LEQ: token.GEQ}[op]
			}
			if l != "sched.run" || r != pname {
				die("stopRun: guard does not compare sched.run with the parameter")
			}
			srCmp = cmpOp(op)
		}
	}
	if srCmp == "" {
		die("stopRun: `if sched.run == run { sched.stop() }` not found")
	}
	sto := f.method("StdScheduler", "stop")
	retIfNot, cancels, clears := false, false, false
	cancelAt, clearAt := -1, -1
	for i, s := range sto.Body.List {
		switch x := s.(type) {
		case *ast.IfStmt:
			if u, ok := unparen(x.Cond).(*ast.UnaryExpr); ok && u.Op == token.NOT && lpRender(u.X) == "sched.started" && len(x.Body.List) > 0 {
				if _, ok := x.Body.List[len(x.Body.List)-1].(*ast.ReturnStmt); ok {
					retIfNot = true
				}
			}
		case *ast.ExprStmt:
			if lpIsCall(x.X, "sched.cancel") != nil {
				cancels, cancelAt = true, i
			}
		case *ast.AssignStmt:
			if len(x.Lhs) == 1 && lpRender(x.Lhs[0]) == "sched.started" && lpRender(x.Rhs[0]) == "false" {
				clears, clearAt = true, i
			}
		}
	}
	_ = cancelAt
	_ = clearAt
	wt := f.method("StdScheduler", "Wait")
	// Wait: either a helper goroutine around sync.WaitGroup.Wait, or a select on the counter's idle channel
	waits := lpHasCall(wt.Body, "sched.wg.Wait") || lpHasCall(wt.Body, "sched.wg.idle")
	waitNoGoroutine := true
	ast.Inspect(wt.Body, func(n ast.Node) bool {
		if _, ok := n.(*ast.GoStmt); ok {
			waitNoGoroutine = false
		}
		return true
	})
	waitSelectsCtx := false
	ast.Inspect(wt.Body, func(n ast.Node) bool {
		if sl, ok := n.(*ast.SelectStmt); ok {
			for _, c := range sl.Body.List {
				if lpCommRecv(c.(*ast.CommClause)) == "ctx.Done()" {
					waitSelectsCtx = true
				}
			}
		}
		return true
	})
	is := f.method("StdScheduler", "IsStarted")
	if !lpHasCall(is.Body, "sched.mtx.RLock") {
		die("IsStarted: does not take sched.mtx")
	}
	o.line("(* Start, Stop, stopRun, stop, Wait, IsStarted *)")
	o.line("Definition start_returns_if_started : bool := %s.", coqBool(retIfStarted))
	o.line("Definition start_increments_run : bool := %s.", coqBool(incRun))
	o.line("Definition start_watcher_calls_stop_run : bool := %s.", coqBool(watcherStopRun))
	o.line("Definition start_loop_wg_add_before_go : bool := %s.", coqBool(loopAddFirst))
	o.line("Definition start_sets_started : bool := %s.", coqBool(setsStarted))
	o.line("Definition start_holds_mtx : bool := %s.", coqBool(startMtx))
	o.line("Definition stop_holds_mtx : bool := %s.", coqBool(stopMtx))
	o.line("Definition stop_run_holds_mtx : bool := %s.", coqBool(srMtx))
	o.line("Definition stop_run_cmp : cmp_op := %s.", srCmp)
	o.line("Definition stop_returns_if_not_started : bool := %s.", coqBool(retIfNot))
	o.line("Definition stop_cancels : bool := %s.", coqBool(cancels))
	o.line("Definition stop_clears_started : bool := %s.", coqBool(clears))
	o.line("Definition wait_waits_wg : bool := %s.", coqBool(waits))
	o.line("Definition wait_selects_ctx : bool := %s.", coqBool(waitSelectsCtx))
	o.line("(* Wait starts no goroutine of its own (a Wait whose context expires leaves nothing behind) *)")
	o.line("Definition wait_leaves_no_goroutine : bool := %s.", coqBool(waitNoGoroutine))
}
