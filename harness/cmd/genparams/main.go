// genparams: the translator. It reads named declarations from /repo's Go
// sources with go/parser and writes them as Gallina definitions (Params.v),
// so that the Coq theorems mentioning them are re-checked against what the
// source says now.  It fails closed: if a declaration it expects is missing
// or does not have the expected shape it prints an error and exits 1 without
// writing anything.
//
// usage: genparams -repo /repo <section>     (section: logger | cron | sched | jobs | queue)
package main

import (
	"flag"
	"fmt"
	"go/ast"
	"go/parser"
	"go/token"
	"os"
	"path/filepath"
	"strconv"
	"strings"
)

var repo = flag.String("repo", "/repo", "path of the go-quartz working tree")

type fail struct{ msg string }

func die(format string, a ...any) { panic(fail{fmt.Sprintf(format, a...)}) }

type file struct {
	fset *token.FileSet
	f    *ast.File
	path string
}

func parse(rel string) *file {
	fset := token.NewFileSet()
	p := filepath.Join(*repo, rel)
	f, err := parser.ParseFile(fset, p, nil, parser.ParseComments)
	if err != nil {
		die("parse %s: %v", rel, err)
	}
	return &file{fset, f, rel}
}

// constExpr returns the initialiser expression of a package-level const or var.
func (f *file) valueExpr(name string) ast.Expr {
	for _, d := range f.f.Decls {
		g, ok := d.(*ast.GenDecl)
		if !ok || (g.Tok != token.CONST && g.Tok != token.VAR) {
			continue
		}
		for _, s := range g.Specs {
			vs := s.(*ast.ValueSpec)
			for i, n := range vs.Names {
				if n.Name == name {
					if i < len(vs.Values) {
						return vs.Values[i]
					}
					die("%s: %s has no initialiser", f.path, name)
				}
			}
		}
	}
	die("%s: declaration %s not found", f.path, name)
	return nil
}

func unparen(e ast.Expr) ast.Expr {
	for {
		p, ok := e.(*ast.ParenExpr)
		if !ok {
			return e
		}
		e = p.X
	}
}

// intOf evaluates an integer constant expression built from literals, unary
// minus, + - * << and references to other constants of the same file.
func (f *file) intOf(e ast.Expr) int64 {
	switch x := unparen(e).(type) {
	case *ast.BasicLit:
		if x.Kind == token.INT {
			v, err := strconv.ParseInt(strings.ReplaceAll(x.Value, "_", ""), 0, 64)
			if err != nil {
				die("%s: bad int literal %s", f.path, x.Value)
			}
			return v
		}
	case *ast.UnaryExpr:
		if x.Op == token.SUB {
			return -f.intOf(x.X)
		}
		if x.Op == token.ADD {
			return f.intOf(x.X)
		}
	case *ast.BinaryExpr:
		a, b := f.intOf(x.X), f.intOf(x.Y)
		switch x.Op {
		case token.ADD:
			return a + b
		case token.SUB:
			return a - b
		case token.MUL:
			return a * b
		case token.SHL:
			return a << uint(b)
		case token.OR:
			return a | b
		}
	case *ast.Ident:
		return f.intOf(f.valueExpr(x.Name))
	case *ast.CallExpr: // conversion such as Level(3) or int64(x)
		if len(x.Args) == 1 {
			return f.intOf(x.Args[0])
		}
	}
	die("%s: cannot evaluate integer expression at %s", f.path, f.fset.Position(e.Pos()))
	return 0
}

func (f *file) intConst(name string) int64 { return f.intOf(f.valueExpr(name)) }

func (f *file) strOf(e ast.Expr) string {
	switch x := unparen(e).(type) {
	case *ast.BasicLit:
		if x.Kind == token.STRING {
			s, err := strconv.Unquote(x.Value)
			if err != nil {
				die("%s: bad string literal", f.path)
			}
			return s
		}
	case *ast.Ident:
		return f.strOf(f.valueExpr(x.Name))
	}
	die("%s: cannot evaluate string expression at %s", f.path, f.fset.Position(e.Pos()))
	return ""
}

func (f *file) strConst(name string) string { return f.strOf(f.valueExpr(name)) }

// method returns the declaration of method name on receiver type recv ("" = plain function).
func (f *file) method(recv, name string) *ast.FuncDecl {
	for _, d := range f.f.Decls {
		fd, ok := d.(*ast.FuncDecl)
		if !ok || fd.Name.Name != name {
			continue
		}
		if recv == "" {
			if fd.Recv == nil {
				return fd
			}
			continue
		}
		if fd.Recv == nil || len(fd.Recv.List) != 1 {
			continue
		}
		t := fd.Recv.List[0].Type
		if s, ok := t.(*ast.StarExpr); ok {
			t = s.X
		}
		if ix, ok := t.(*ast.IndexExpr); ok { // generic receiver
			t = ix.X
		}
		if id, ok := t.(*ast.Ident); ok && id.Name == recv {
			return fd
		}
	}
	die("%s: func (%s) %s not found", f.path, recv, name)
	return nil
}

// callName renders the callee of a call expression as a dotted path ("l.logger.SetPrefix").
func callName(e ast.Expr) string {
	switch x := e.(type) {
	case *ast.Ident:
		return x.Name
	case *ast.SelectorExpr:
		return callName(x.X) + "." + x.Sel.Name
	case *ast.CallExpr:
		return callName(x.Fun) + "()"
	case *ast.IndexExpr:
		return callName(x.X)
	case *ast.ParenExpr:
		return callName(x.X)
	case *ast.StarExpr:
		return callName(x.X)
	}
	return "?"
}

// callsIn lists the calls (in source order) found in a statement list, with defer marked.
type callInfo struct {
	name  string
	call  *ast.CallExpr
	defer_ bool
}

func callsIn(stmts []ast.Stmt) []callInfo {
	var out []callInfo
	for _, s := range stmts {
		switch x := s.(type) {
		case *ast.DeferStmt:
			out = append(out, callInfo{callName(x.Call.Fun), x.Call, true})
		default:
			ast.Inspect(s, func(n ast.Node) bool {
				if c, ok := n.(*ast.CallExpr); ok {
					out = append(out, callInfo{callName(c.Fun), c, false})
				}
				return true
			})
		}
	}
	return out
}

// ---- Coq output helpers ----

type out struct{ b strings.Builder }

func (o *out) line(format string, a ...any) { fmt.Fprintf(&o.b, format+"\n", a...) }

func coqStr(s string) string { return "\"" + strings.ReplaceAll(s, "\"", "\"\"") + "\"" }

func coqZ(v int64) string {
	if v < 0 {
		return fmt.Sprintf("(%d)", v)
	}
	return fmt.Sprintf("%d", v)
}

func coqBool(b bool) string {
	if b {
		return "true"
	}
	return "false"
}

func coqZList(vs []int64) string {
	p := make([]string, len(vs))
	for i, v := range vs {
		p[i] = coqZ(v)
	}
	return "[" + strings.Join(p, "; ") + "]"
}

func coqStrList(vs []string) string {
	p := make([]string, len(vs))
	for i, v := range vs {
		p[i] = coqStr(v)
	}
	return "[" + strings.Join(p, "; ") + "]"
}

func cmpOp(op token.Token) string {
	switch op {
	case token.GEQ:
		return "OpGe"
	case token.GTR:
		return "OpGt"
	case token.LEQ:
		return "OpLe"
	case token.LSS:
		return "OpLt"
	case token.EQL:
		return "OpEq"
	case token.NEQ:
		return "OpNe"
	}
	die("unexpected comparison operator %s", op)
	return ""
}

var sections = map[string]func(o *out){}

func main() {
	flag.Parse()
	if flag.NArg() != 1 {
		fmt.Fprintln(os.Stderr, "usage: genparams -repo /repo <section>")
		os.Exit(2)
	}
	gen, ok := sections[flag.Arg(0)]
	if !ok {
		fmt.Fprintln(os.Stderr, "unknown section", flag.Arg(0))
		os.Exit(2)
	}
	defer func() {
		if r := recover(); r != nil {
			if f, ok := r.(fail); ok {
				fmt.Fprintln(os.Stderr, "genparams:", f.msg)
				os.Exit(1)
			}
			panic(r)
		}
	}()
	o := &out{}
	o.line("(* GENERATED by /verif/harness/cmd/genparams from %s's Go sources -- do not edit. *)", "/repo")
	gen(o)
	fmt.Print(o.b.String())
}
