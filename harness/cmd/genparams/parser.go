package main

import (
	"go/ast"
	"go/token"
	"sort"
	"strconv"
	"strings"
)

// Section "parser": quartz/cron.go, quartz/util.go, quartz/csm.go, internal/csm/day_node.go.
//
// Copies into Params.v: the seven field boundaries of buildCronField together with the parse
// function and glossary used per field (checked, fail closed), the add(delta) shift of the weekday
// field, the months/days glossaries, the `special` macro table, the rune constants, the hash range,
// the lower bound of a step, the two comparison operators of inScope, the token-count limits of
// parseCronExpression, the marker constants, the literals of the `L`/`LW` forms, the full-wildcard
// fill range of NewCronTriggerWithLoc and the sources of the five regular expressions (which must be
// exactly the ones the model's recognisers were written for).
func init() { sections["parser"] = genParser }

var expectedRegex = map[string]string{
	"whitespacePattern":     `\s+`,
	"cronLastMonthDayRegex": `^L(-[0-9]+)?$`,
	"cronWeekdayRegex":      `^[0-9]+W$`,
	"cronLastWeekdayRegex":  `^[a-zA-Z0-9]*L$`,
	"cronHashRegex":         `^[a-zA-Z0-9]+#[0-9]+$`,
}

func (f *file) runeConst(name string) int64 {
	e := unparen(f.valueExpr(name))
	bl, ok := e.(*ast.BasicLit)
	if !ok || bl.Kind != token.CHAR {
		die("%s: %s is not a rune literal", f.path, name)
	}
	s, err := strconv.Unquote(bl.Value)
	if err != nil || len([]rune(s)) != 1 {
		die("%s: bad rune literal %s", f.path, bl.Value)
	}
	r := []rune(s)[0]
	if r >= 128 {
		die("%s: rune %s is not ASCII (the model is byte based)", f.path, name)
	}
	return int64(r)
}

func (f *file) strSlice(name string) []string {
	cl, ok := unparen(f.valueExpr(name)).(*ast.CompositeLit)
	if !ok {
		die("%s: %s is not a composite literal", f.path, name)
	}
	var out []string
	for _, e := range cl.Elts {
		out = append(out, f.strOf(e))
	}
	return out
}

func asciiOnly(what, s string) {
	for i := 0; i < len(s); i++ {
		if s[i] >= 128 {
			die("%s: %q is not ASCII", what, s)
		}
	}
}

// regexSource returns the argument of regexp.MustCompile(`...`).
func (f *file) regexSource(name string) string {
	c, ok := unparen(f.valueExpr(name)).(*ast.CallExpr)
	if !ok || callName(c.Fun) != "regexp.MustCompile" || len(c.Args) != 1 {
		die("%s: %s is not regexp.MustCompile(<literal>)", f.path, name)
	}
	return f.strOf(c.Args[0])
}

// intLit evaluates an expression that consists of literals only (no identifiers).
func (f *file) pureInt(e ast.Expr) (int64, bool) {
	pure := true
	ast.Inspect(e, func(n ast.Node) bool {
		switch n.(type) {
		case *ast.Ident, *ast.SelectorExpr, *ast.CallExpr:
			pure = false
		}
		return true
	})
	if !pure {
		return 0, false
	}
	return f.intOf(e), true
}

func intSliceLit(f *file, e ast.Expr) ([]int64, bool) {
	cl, ok := unparen(e).(*ast.CompositeLit)
	if !ok {
		return nil, false
	}
	out := []int64{}
	for _, el := range cl.Elts {
		v, ok := f.pureInt(el)
		if !ok {
			return nil, false
		}
		out = append(out, v)
	}
	return out, true
}

func genParser(o *out) {
	cr := parse("quartz/cron.go")
	ut := parse("quartz/util.go")
	cs := parse("quartz/csm.go")
	dn := parse("internal/csm/day_node.go")

	o.line("From Coq Require Import ZArith String Ascii List.")
	o.line("Import ListNotations.")
	o.line("Open Scope Z_scope.")
	o.line("Open Scope string_scope.")
	o.line("")
	o.line("Inductive cmp_op := OpGe | OpGt | OpLe | OpLt | OpEq | OpNe.")
	o.line("")

	// ---- regular expressions: must be the ones the recognisers of ParserModel.v denote
	names := make([]string, 0, len(expectedRegex))
	for n := range expectedRegex {
		names = append(names, n)
	}
	sort.Strings(names)
	for _, n := range names {
		src := cr.regexSource(n)
		if src != expectedRegex[n] {
			die("quartz/cron.go: %s is %q, the model's recogniser was written for %q", n, src, expectedRegex[n])
		}
		o.line("Definition re_src_%s : string := %s.", n, coqStr(src))
	}
	o.line("")

	// ---- rune constants
	for _, n := range []string{"listRune", "stepRune", "rangeRune", "weekdayRune", "lastRune", "hashRune"} {
		o.line("Definition go_%s : ascii := ascii_of_nat %d.   (* %q *)", n, ut.runeConst(n), string(rune(ut.runeConst(n))))
	}
	o.line("")

	// ---- glossaries and macros
	months, days := cr.strSlice("months"), cr.strSlice("days")
	for _, s := range append(append([]string{}, months...), days...) {
		asciiOnly("glossary", s)
	}
	o.line("Definition go_months : list string := %s.", coqStrList(months))
	o.line("Definition go_days : list string := %s.", coqStrList(days))
	sp, ok := unparen(cr.valueExpr("special")).(*ast.CompositeLit)
	if !ok {
		die("quartz/cron.go: special is not a map literal")
	}
	if mt, ok := sp.Type.(*ast.MapType); !ok || callName(mt.Key) != "string" || callName(mt.Value) != "string" {
		die("quartz/cron.go: special is not a map[string]string literal")
	}
	var pairs []string
	for _, e := range sp.Elts {
		kv, ok := e.(*ast.KeyValueExpr)
		if !ok {
			die("quartz/cron.go: special: unexpected element")
		}
		k, v := cr.strOf(kv.Key), cr.strOf(kv.Value)
		asciiOnly("special", k)
		asciiOnly("special", v)
		pairs = append(pairs, "("+coqStr(k)+", "+coqStr(v)+")")
	}
	o.line("(* map literal: the Go compiler rejects duplicate constant keys, so the first match is the only one *)")
	o.line("Definition go_special : list (string * string) := [%s].", strings.Join(pairs, "; "))
	o.line("")

	// ---- buildCronField: fields[i], err = parseX(tokens[i], boundary{lo, hi}, names)
	bf := cr.method("", "buildCronField")
	wantFn := []string{"parseField", "parseField", "parseField", "parseDayOfMonthField", "parseField", "parseDayOfWeekField", "parseField"}
	wantNames := []string{"nil", "nil", "nil", "nil", "months", "days", "nil"}
	coqName := []string{"second", "minute", "hour", "dom", "month", "dow", "year"}
	seen := make([]bool, 7)
	next := 0
	var addDelta *int64
	addIndex := int64(-1)
	for _, st := range bf.Body.List {
		switch x := st.(type) {
		case *ast.AssignStmt:
			if len(x.Lhs) != 2 || len(x.Rhs) != 1 {
				continue
			}
			ix, ok := x.Lhs[0].(*ast.IndexExpr)
			if !ok || callName(ix.X) != "fields" {
				continue
			}
			i := cr.intOf(ix.Index)
			if i != int64(next) || i > 6 {
				die("buildCronField: fields are not assigned in order 0..6")
			}
			call, ok := x.Rhs[0].(*ast.CallExpr)
			if !ok || len(call.Args) != 3 {
				die("buildCronField: fields[%d] is not assigned from a 3-argument call", i)
			}
			if callName(call.Fun) != wantFn[i] {
				die("buildCronField: fields[%d] parsed by %s, expected %s", i, callName(call.Fun), wantFn[i])
			}
			tk, ok := call.Args[0].(*ast.IndexExpr)
			if !ok || callName(tk.X) != "tokens" || cr.intOf(tk.Index) != i {
				die("buildCronField: fields[%d] is not parsed from tokens[%d]", i, i)
			}
			bl, ok := call.Args[1].(*ast.CompositeLit)
			if !ok || callName(bl.Type) != "boundary" || len(bl.Elts) != 2 {
				die("buildCronField: fields[%d]: second argument is not boundary{lo, hi}", i)
			}
			lo, ok1 := cr.pureInt(bl.Elts[0])
			hi, ok2 := cr.pureInt(bl.Elts[1])
			if !ok1 || !ok2 {
				die("buildCronField: fields[%d]: boundary is not made of literals", i)
			}
			if callName(call.Args[2]) != wantNames[i] {
				die("buildCronField: fields[%d]: glossary is %s, expected %s", i, callName(call.Args[2]), wantNames[i])
			}
			o.line("Definition go_bound_%s : Z * Z := (%s, %s).", coqName[i], coqZ(lo), coqZ(hi))
			seen[i] = true
			next++
		case *ast.ExprStmt:
			call, ok := x.X.(*ast.CallExpr)
			if !ok {
				continue
			}
			sel, ok := call.Fun.(*ast.SelectorExpr)
			if !ok || sel.Sel.Name != "add" {
				continue
			}
			ix, ok := sel.X.(*ast.IndexExpr)
			if !ok || callName(ix.X) != "fields" || len(call.Args) != 1 || addDelta != nil {
				die("buildCronField: unexpected add call")
			}
			addIndex = cr.intOf(ix.Index)
			d := cr.intOf(call.Args[0])
			addDelta = &d
			if next != 6 {
				die("buildCronField: add is not applied right after the day-of-week field was parsed")
			}
		}
	}
	for i, s := range seen {
		if !s {
			die("buildCronField: assignment of fields[%d] not found", i)
		}
	}
	if addDelta == nil || addIndex != 5 {
		die("buildCronField: fields[5].add(delta) not found")
	}
	o.line("(* fields[5].add(delta) *)")
	o.line("Definition go_dow_shift : Z := %s.", coqZ(*addDelta))
	// the body of add: cf.values[i] += delta
	addFn := cr.method("cronField", "add")
	okAdd := false
	ast.Inspect(addFn.Body, func(n ast.Node) bool {
		if as, ok := n.(*ast.AssignStmt); ok && as.Tok == token.ADD_ASSIGN && len(as.Rhs) == 1 && callName(as.Rhs[0]) == "delta" {
			okAdd = true
		}
		return true
	})
	if !okAdd {
		die("cronField.add: expected `cf.values[i] += delta`")
	}
	o.line("")

	// ---- parseCronExpression: length < lo || length > hi ; length == lo => append "*" ; tokens[3] / tokens[5]
	pe := cr.method("", "parseCronExpression")
	var cntLo, cntHi, cntDef int64 = -1, -1, -1
	defTok := ""
	dayIdx := []int64{}
	dayLits := map[string]bool{}
	ast.Inspect(pe.Body, func(n ast.Node) bool {
		ifs, ok := n.(*ast.IfStmt)
		if !ok {
			return true
		}
		switch c := unparen(ifs.Cond).(type) {
		case *ast.BinaryExpr:
			if c.Op == token.LOR {
				l, ok1 := unparen(c.X).(*ast.BinaryExpr)
				r, ok2 := unparen(c.Y).(*ast.BinaryExpr)
				if ok1 && ok2 && callName(l.X) == "length" && callName(r.X) == "length" && l.Op == token.LSS && r.Op == token.GTR {
					cntLo, cntHi = cr.intOf(l.Y), cr.intOf(r.Y)
				}
			}
			if c.Op == token.EQL && callName(c.X) == "length" {
				cntDef = cr.intOf(c.Y)
				ast.Inspect(ifs.Body, func(m ast.Node) bool {
					if call, ok := m.(*ast.CallExpr); ok && callName(call.Fun) == "append" && len(call.Args) == 2 && callName(call.Args[0]) == "tokens" {
						defTok = cr.strOf(call.Args[1])
					}
					return true
				})
			}
			if c.Op == token.LAND {
				// (tokens[a] != "?" && tokens[a] != "*") && (tokens[b] != "?" && tokens[b] != "*")
				shape := true
				ast.Inspect(c, func(m ast.Node) bool {
					if b, ok := m.(*ast.BinaryExpr); ok {
						switch b.Op {
						case token.LAND:
						case token.NEQ:
							ix, ok := b.X.(*ast.IndexExpr)
							if !ok || callName(ix.X) != "tokens" {
								shape = false
								return false
							}
							dayIdx = append(dayIdx, cr.intOf(ix.Index))
							dayLits[cr.strOf(b.Y)] = true
							return false
						default:
							shape = false
						}
					}
					return true
				})
				if !shape {
					die("parseCronExpression: unexpected shape of the day-field-set-twice test")
				}
			}
		}
		return true
	})
	if cntLo < 0 || cntHi < 0 || cntDef != cntLo || defTok != "*" {
		die("parseCronExpression: expected `length < a || length > b` and `length == a` appending \"*\"")
	}
	if len(dayIdx) != 4 || dayIdx[0] != 3 || dayIdx[1] != 3 || dayIdx[2] != 5 || dayIdx[3] != 5 || len(dayLits) != 2 || !dayLits["?"] || !dayLits["*"] {
		die("parseCronExpression: day-field-set-twice test is not on tokens[3] and tokens[5] against \"?\" and \"*\"")
	}
	o.line("(* parseCronExpression: length < min || length > max is an error; length == min appends \"*\" *)")
	o.line("Definition go_tokens_min : Z := %s.", coqZ(cntLo))
	o.line("Definition go_tokens_max : Z := %s.", coqZ(cntHi))
	o.line("")

	// ---- inScope: value >= lowerBound && value <= upperBound
	is := ut.method("", "inScope")
	var loOp, hiOp token.Token
	found := 0
	ast.Inspect(is.Body, func(n ast.Node) bool {
		ifs, ok := n.(*ast.IfStmt)
		if !ok {
			return true
		}
		c, ok := unparen(ifs.Cond).(*ast.BinaryExpr)
		if !ok || c.Op != token.LAND {
			die("inScope: expected a conjunction of two comparisons")
		}
		l, ok1 := unparen(c.X).(*ast.BinaryExpr)
		r, ok2 := unparen(c.Y).(*ast.BinaryExpr)
		if !ok1 || !ok2 || callName(l.X) != "value" || callName(l.Y) != "lowerBound" || callName(r.X) != "value" || callName(r.Y) != "upperBound" {
			die("inScope: expected `value <op> lowerBound && value <op> upperBound`")
		}
		if len(ifs.Body.List) != 1 {
			die("inScope: unexpected if body")
		}
		ret, ok := ifs.Body.List[0].(*ast.ReturnStmt)
		if !ok || len(ret.Results) != 1 || callName(ret.Results[0]) != "true" {
			die("inScope: the guarded statement is not `return true`")
		}
		loOp, hiOp = l.Op, r.Op
		found++
		return true
	})
	if found != 1 || len(is.Body.List) != 2 {
		die("inScope: expected one if statement followed by return false")
	}
	if ret, ok := is.Body.List[1].(*ast.ReturnStmt); !ok || len(ret.Results) != 1 || callName(ret.Results[0]) != "false" {
		die("inScope: expected a final `return false`")
	}
	o.line("(* inScope(value, lowerBound, upperBound) = value <op1> lowerBound && value <op2> upperBound *)")
	o.line("Definition go_in_scope_lower_op : cmp_op := %s.", cmpOp(loOp))
	o.line("Definition go_in_scope_upper_op : cmp_op := %s.", cmpOp(hiOp))
	o.line("")

	// ---- inScope calls with literal bounds: hash range in parseDayOfWeekField, step lower bound in parseStepField
	type scopeCall struct {
		lo, hi     int64
		loOK, hiOK bool
		arg0       string
	}
	scopeCalls := func(fn string) []scopeCall {
		var out []scopeCall
		ast.Inspect(cr.method("", fn).Body, func(n ast.Node) bool {
			c, ok := n.(*ast.CallExpr)
			if !ok || callName(c.Fun) != "inScope" || len(c.Args) != 3 {
				return true
			}
			var sc scopeCall
			sc.arg0 = callName(c.Args[0])
			sc.lo, sc.loOK = cr.pureInt(c.Args[1])
			sc.hi, sc.hiOK = cr.pureInt(c.Args[2])
			out = append(out, sc)
			return true
		})
		return out
	}
	var hash *scopeCall
	for _, sc := range scopeCalls("parseDayOfWeekField") {
		sc := sc
		if sc.loOK && sc.hiOK {
			if hash != nil {
				die("parseDayOfWeekField: more than one inScope call with literal bounds")
			}
			hash = &sc
		} else if sc.loOK || sc.hiOK {
			die("parseDayOfWeekField: inScope call with one literal bound")
		}
	}
	if hash == nil || hash.arg0 != "n" {
		die("parseDayOfWeekField: inScope(n, <lit>, <lit>) not found")
	}
	o.line("Definition go_hash_lo : Z := %s.", coqZ(hash.lo))
	o.line("Definition go_hash_hi : Z := %s.", coqZ(hash.hi))
	var step *scopeCall
	for _, sc := range scopeCalls("parseStepField") {
		sc := sc
		if sc.arg0 == "step" {
			if step != nil || !sc.loOK || sc.hiOK {
				die("parseStepField: expected exactly one inScope(step, <lit>, bound.upper)")
			}
			step = &sc
		} else if sc.loOK || sc.hiOK {
			die("parseStepField: unexpected literal bound in inScope(%s, ...)", sc.arg0)
		}
	}
	if step == nil {
		die("parseStepField: inScope(step, <lit>, bound.upper) not found")
	}
	o.line("Definition go_step_lo : Z := %s.", coqZ(step.lo))
	for _, fn := range []string{"parseField", "parseListField", "parseRangeField", "parseDayOfMonthField"} {
		for _, sc := range scopeCalls(fn) {
			if sc.loOK || sc.hiOK {
				die("%s: unexpected literal bound in an inScope call", fn)
			}
		}
	}
	o.line("")

	// ---- marker constants
	for _, p := range [][2]string{{"cronLastDayOfMonthN", "NLastDayOfMonth"}, {"cronWeekdayN", "NWeekday"}} {
		if callName(cs.valueExpr(p[0])) != "CSM."+p[1] {
			die("quartz/csm.go: %s is not CSM.%s", p[0], p[1])
		}
		o.line("Definition go_%s : Z := %s.", p[0], coqZ(dn.intConst(p[1])))
	}

	// ---- newCronFieldN literals: day-of-month L / LW / L-n / nW, day-of-week L / dL / d#k
	type nf struct {
		vals   []int64
		valsOK bool
		n      string
		valSrc string
	}
	fieldNs := func(fn string) []nf {
		var out []nf
		ast.Inspect(cr.method("", fn).Body, func(n ast.Node) bool {
			c, ok := n.(*ast.CallExpr)
			if !ok || callName(c.Fun) != "newCronFieldN" || len(c.Args) != 2 {
				return true
			}
			var x nf
			x.vals, x.valsOK = intSliceLit(cr, c.Args[0])
			if cl, ok := c.Args[0].(*ast.CompositeLit); ok && len(cl.Elts) == 1 {
				x.valSrc = callName(cl.Elts[0])
			}
			x.n = exprText(c.Args[1])
			out = append(out, x)
			return true
		})
		return out
	}
	dom := fieldNs("parseDayOfMonthField")
	if len(dom) != 4 ||
		!(dom[0].valsOK && len(dom[0].vals) == 0 && dom[0].n == "cronLastDayOfMonthN") ||
		!(dom[1].valsOK && len(dom[1].vals) == 0 && dom[1].n == "-n") ||
		!(dom[2].valsOK && len(dom[2].vals) == 1 && dom[2].n == "cronLastDayOfMonthN|cronWeekdayN") ||
		!(dom[3].valSrc == "dayOfMonth" && dom[3].n == "cronWeekdayN") {
		die("parseDayOfMonthField: the four newCronFieldN results do not have the expected shape (L, L-n, LW, nW)")
	}
	o.line("(* LW: newCronFieldN([]int{v}, cronLastDayOfMonthN|cronWeekdayN) *)")
	o.line("Definition go_dom_lw_value : Z := %s.", coqZ(dom[2].vals[0]))
	dow := fieldNs("parseDayOfWeekField")
	if len(dow) != 3 || !(dow[0].valsOK && len(dow[0].vals) == 1) || dow[1].valSrc != "dayOfWeek" || dow[1].n != dow[0].n ||
		dow[2].valSrc != "dayOfWeek" || dow[2].n != "n" {
		die("parseDayOfWeekField: the three newCronFieldN results do not have the expected shape (L, dL, d#k)")
	}
	dowLastN, err := strconv.ParseInt(dow[0].n, 10, 64)
	if err != nil {
		die("parseDayOfWeekField: marker of the L form is not an integer literal")
	}
	o.line("(* day-of-week L alone: newCronFieldN([]int{v}, n); dL uses the same n *)")
	o.line("Definition go_dow_last_value : Z := %s.", coqZ(dow[0].vals[0]))
	o.line("Definition go_dow_last_n : Z := %s.", coqZ(dowLastN))
	o.line("")

	// ---- NewCronTriggerWithLoc: fields[0].values, _ = fillRangeValues(a, b) for the full wildcard
	nt := cr.method("", "NewCronTriggerWithLoc")
	var fw []int64
	ast.Inspect(nt.Body, func(n ast.Node) bool {
		as, ok := n.(*ast.AssignStmt)
		if !ok || len(as.Rhs) != 1 {
			return true
		}
		c, ok := as.Rhs[0].(*ast.CallExpr)
		if !ok || callName(c.Fun) != "fillRangeValues" || len(c.Args) != 2 {
			return true
		}
		if exprText(as.Lhs[0]) != "fields[0].values" {
			die("NewCronTriggerWithLoc: fillRangeValues is not assigned to fields[0].values")
		}
		a, ok1 := cr.pureInt(c.Args[0])
		b, ok2 := cr.pureInt(c.Args[1])
		if !ok1 || !ok2 || fw != nil {
			die("NewCronTriggerWithLoc: unexpected fillRangeValues call")
		}
		fw = []int64{a, b}
		return true
	})
	if fw == nil {
		die("NewCronTriggerWithLoc: full-wildcard fillRangeValues call not found")
	}
	o.line("(* full-wildcard expression: fields[0].values = fillRangeValues(a, b) *)")
	o.line("Definition go_wildcard_fill : Z * Z := (%s, %s).", coqZ(fw[0]), coqZ(fw[1]))
}

// exprText renders simple expressions (identifiers, selectors, index, unary minus, |, literals) as text.
func exprText(e ast.Expr) string {
	switch x := e.(type) {
	case *ast.Ident:
		return x.Name
	case *ast.BasicLit:
		return x.Value
	case *ast.SelectorExpr:
		return exprText(x.X) + "." + x.Sel.Name
	case *ast.IndexExpr:
		return exprText(x.X) + "[" + exprText(x.Index) + "]"
	case *ast.UnaryExpr:
		return x.Op.String() + exprText(x.X)
	case *ast.BinaryExpr:
		return exprText(x.X) + x.Op.String() + exprText(x.Y)
	case *ast.ParenExpr:
		return "(" + exprText(x.X) + ")"
	}
	return "?"
}
