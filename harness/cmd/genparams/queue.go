package main

import (
	"bytes"
	"go/ast"
	"go/printer"
	"go/token"
	"strings"
)

// Section "queue": quartz/queue.go, quartz/job_key.go, matcher/*.go  ->  coq/queue/theories/Gen/Params.v
func init() { sections["queue"] = genQueue }

// src renders a node as Go source on one line per statement.
func (f *file) qsrc(n any) string {
	var b bytes.Buffer
	if err := printer.Fprint(&b, f.fset, n); err != nil {
		die("%s: cannot print node: %v", f.path, err)
	}
	return b.String()
}

// bodyLines renders the statements of a function body, one string per statement, whitespace-normalised.
func (f *file) qBodyLines(fd *ast.FuncDecl) []string {
	var out []string
	for _, s := range fd.Body.List {
		out = append(out, strings.Join(strings.Fields(f.qsrc(s)), " "))
	}
	return out
}

func qSameLines(a, b []string) bool {
	if len(a) != len(b) {
		return false
	}
	for i := range a {
		if a[i] != b[i] {
			return false
		}
	}
	return true
}

func qMirror(op token.Token) token.Token {
	return map[token.Token]token.Token{token.GEQ: token.LEQ, token.LEQ: token.GEQ, token.GTR: token.LSS,
		token.LSS: token.GTR, token.EQL: token.EQL, token.NEQ: token.NEQ}[op]
}

func qParamNames(fd *ast.FuncDecl) []string {
	var out []string
	for _, p := range fd.Type.Params.List {
		for _, n := range p.Names {
			out = append(out, n.Name)
		}
	}
	return out
}

func qRecvName(fd *ast.FuncDecl) string {
	if fd.Recv == nil || len(fd.Recv.List) != 1 || len(fd.Recv.List[0].Names) != 1 {
		die("%s: receiver of %s has no name", "?", fd.Name.Name)
	}
	return fd.Recv.List[0].Names[0].Name
}

func qSingleReturn(f *file, fd *ast.FuncDecl, what string) ast.Expr {
	if len(fd.Body.List) != 1 {
		die("%s: %s: expected a single return statement", f.path, what)
	}
	ret, ok := fd.Body.List[0].(*ast.ReturnStmt)
	if !ok || len(ret.Results) != 1 {
		die("%s: %s: expected a single return statement", f.path, what)
	}
	return unparen(ret.Results[0])
}

var qerrNames = map[string]string{"ErrQueueEmpty": "ErrQueueEmpty", "ErrJobNotFound": "ErrJobNotFound",
	"ErrJobAlreadyExists": "ErrJobAlreadyExists"}

func genQueue(o *out) {
	q := parse("quartz/queue.go")
	o.line("From Coq Require Import ZArith String List.")
	o.line("Import ListNotations.")
	o.line("Open Scope string_scope.")
	o.line("")
	o.line("Inductive cmp_op := OpGe | OpGt | OpLe | OpLt | OpEq | OpNe.")
	o.line("Inductive qerr := ErrQueueEmpty | ErrJobNotFound | ErrJobAlreadyExists | ErrOther.")
	o.line("Inductive strfun := FEq | FHasPrefix | FHasSuffix | FContains.")
	o.line("Inductive keyfield := FieldName | FieldGroup.")
	o.line("")

	// priorityQueue.Less: return pq[i].priority <op> pq[j].priority
	less := q.method("priorityQueue", "Less")
	lp := qParamNames(less)
	if len(lp) != 2 {
		die("priorityQueue.Less: expected two parameters")
	}
	r := qRecvName(less)
	be, ok := qSingleReturn(q, less, "priorityQueue.Less").(*ast.BinaryExpr)
	if !ok {
		die("priorityQueue.Less: expected a comparison")
	}
	lhs, rhs := q.qsrc(be.X), q.qsrc(be.Y)
	pi, pj := r+"["+lp[0]+"].priority", r+"["+lp[1]+"].priority"
	op := be.Op
	switch {
	case lhs == pi && rhs == pj:
	case lhs == pj && rhs == pi:
		op = qMirror(op)
	default:
		die("priorityQueue.Less: operands are not %s and %s (found %s, %s)", pi, pj, lhs, rhs)
	}
	o.line("(* quartz/queue.go priorityQueue.Less: pq[i].priority <op> pq[j].priority *)")
	o.line("Definition less_op : cmp_op := %s.", cmpOp(op))

	// Swap / Push / Pop of the heap.Interface implementation: exact statement shapes
	sw := q.method("priorityQueue", "Swap")
	sp := qParamNames(sw)
	sr := qRecvName(sw)
	if len(sp) != 2 {
		die("priorityQueue.Swap: expected two parameters")
	}
	a, b := sr+"["+sp[0]+"]", sr+"["+sp[1]+"]"
	if !qSameLines(q.qBodyLines(sw), []string{a + ", " + b + " = " + b + ", " + a}) {
		die("priorityQueue.Swap: body is not `%s, %s = %s, %s`: %q", a, b, b, a, q.qBodyLines(sw))
	}
	pu := q.method("priorityQueue", "Push")
	pur := qRecvName(pu)
	pup := qParamNames(pu)
	if len(pup) != 1 || !qSameLines(q.qBodyLines(pu), []string{
		"item := " + pup[0] + ".(*scheduledJob)", "*" + pur + " = append(*" + pur + ", item)"}) {
		die("priorityQueue.Push: body does not append the element: %q", q.qBodyLines(pu))
	}
	po := q.method("priorityQueue", "Pop")
	por := qRecvName(po)
	if !qSameLines(q.qBodyLines(po), []string{"old := *" + por, "n := len(old)", "item := old[n-1]",
		"*" + por + " = old[0 : n-1]", "return item"}) {
		die("priorityQueue.Pop: body does not remove and return the last element: %q", q.qBodyLines(po))
	}
	ln := q.method("priorityQueue", "Len")
	if !qSameLines(q.qBodyLines(ln), []string{"return len(" + qRecvName(ln) + ")"}) {
		die("priorityQueue.Len: unexpected body")
	}
	o.line("(* priorityQueue.Swap exchanges pq[i] and pq[j]; Push appends; Pop removes and returns the last element *)")
	o.line("Definition pq_swap_exchanges : bool := true.")
	o.line("Definition pq_push_appends : bool := true.")
	o.line("Definition pq_pop_takes_last : bool := true.")

	// lock discipline of the jobQueue methods
	methods := []string{"Push", "Pop", "Head", "Get", "Remove", "ScheduledJobs", "Size", "Clear"}
	var locked []string
	for _, m := range methods {
		fd := q.method("jobQueue", m)
		jr := qRecvName(fd)
		isLocked := false
		if len(fd.Body.List) >= 2 {
			es, ok1 := fd.Body.List[0].(*ast.ExprStmt)
			ds, ok2 := fd.Body.List[1].(*ast.DeferStmt)
			if ok1 && ok2 {
				c, ok3 := es.X.(*ast.CallExpr)
				if ok3 && callName(c.Fun) == jr+".mtx.Lock" && len(c.Args) == 0 &&
					callName(ds.Call.Fun) == jr+".mtx.Unlock" && len(ds.Call.Args) == 0 {
					isLocked = true
				}
			}
		}
		// no other Lock/Unlock inside the body (an early Unlock would open the section)
		n := 0
		ast.Inspect(fd.Body, func(x ast.Node) bool {
			if c, ok := x.(*ast.CallExpr); ok {
				cn := callName(c.Fun)
				if strings.HasSuffix(cn, ".Unlock") || strings.HasSuffix(cn, ".Lock") {
					n++
				}
			}
			return true
		})
		if n != 2 {
			isLocked = false
		}
		locked = append(locked, "("+coqStr(m)+", "+coqBool(isLocked)+")")
	}
	// the unexported helper must not take the (non-reentrant) mutex
	ast.Inspect(q.method("jobQueue", "scheduledJobs").Body, func(x ast.Node) bool {
		if c, ok := x.(*ast.CallExpr); ok && strings.Contains(callName(c.Fun), "mtx") {
			die("jobQueue.scheduledJobs touches the mutex")
		}
		return true
	})
	o.line("(* jobQueue methods whose body starts with jq.mtx.Lock(); defer jq.mtx.Unlock() *)")
	o.line("Definition locked_methods : list (string * bool) := [%s].", strings.Join(locked, "; "))

	// sentinel errors
	sentinel := func(m string) string {
		fd := q.method("jobQueue", m)
		var found []string
		ast.Inspect(fd.Body, func(x ast.Node) bool {
			if c, ok := x.(*ast.CallExpr); ok && callName(c.Fun) == "newIllegalStateError" && len(c.Args) == 1 {
				found = append(found, callName(c.Args[0]))
			}
			return true
		})
		if len(found) != 1 {
			die("jobQueue.%s: expected exactly one newIllegalStateError(...) call, found %v", m, found)
		}
		if v, ok := qerrNames[found[0]]; ok {
			return v
		}
		return "ErrOther"
	}
	o.line("(* sentinel wrapped by newIllegalStateError in each method *)")
	o.line("Definition push_dup_err : qerr := %s.", sentinel("Push"))
	o.line("Definition pop_empty_err : qerr := %s.", sentinel("Pop"))
	o.line("Definition head_empty_err : qerr := %s.", sentinel("Head"))
	o.line("Definition get_absent_err : qerr := %s.", sentinel("Get"))
	o.line("Definition remove_absent_err : qerr := %s.", sentinel("Remove"))

	// JobKey.Equals: conjunction of recv.F == that.F
	jk := parse("quartz/job_key.go")
	eq := jk.method("JobKey", "Equals")
	er := qRecvName(eq)
	ep := qParamNames(eq)
	if len(ep) != 1 {
		die("JobKey.Equals: expected one parameter")
	}
	var conj func(e ast.Expr) []ast.Expr
	conj = func(e ast.Expr) []ast.Expr {
		e = unparen(e)
		if b, ok := e.(*ast.BinaryExpr); ok && b.Op == token.LAND {
			return append(conj(b.X), conj(b.Y)...)
		}
		return []ast.Expr{e}
	}
	fieldOf := map[string]string{"name": "FieldName", "group": "FieldGroup"}
	var eqFields []string
	for _, c := range conj(qSingleReturn(jk, eq, "JobKey.Equals")) {
		b, ok := c.(*ast.BinaryExpr)
		if !ok || b.Op != token.EQL {
			die("JobKey.Equals: conjunct is not an == comparison: %s", jk.qsrc(c))
		}
		l, rr := jk.qsrc(b.X), jk.qsrc(b.Y)
		matched := false
		for fn, cf := range fieldOf {
			if (l == er+"."+fn && rr == ep[0]+"."+fn) || (rr == er+"."+fn && l == ep[0]+"."+fn) {
				eqFields = append(eqFields, cf)
				matched = true
			}
		}
		if !matched {
			die("JobKey.Equals: conjunct does not compare the same field of both keys: %s", jk.qsrc(c))
		}
	}
	o.line("(* quartz/job_key.go JobKey.Equals: conjunction of == on these fields, in order *)")
	o.line("Definition equals_fields : list keyfield := [%s].", strings.Join(eqFields, "; "))
	// accessors Name() / Group() return the fields they are named after
	for acc, fn := range map[string]string{"Name": "name", "Group": "group"} {
		fd := jk.method("JobKey", acc)
		if !qSameLines(jk.qBodyLines(fd), []string{"return " + qRecvName(fd) + "." + fn}) {
			die("JobKey.%s does not return the %s field", acc, fn)
		}
	}

	// string operators
	so := parse("matcher/string_operator.go")
	strfun := func(name string) string {
		e := unparen(so.valueExpr(name))
		switch callName(e) {
		case "strings.HasPrefix":
			return "FHasPrefix"
		case "strings.HasSuffix":
			return "FHasSuffix"
		case "strings.Contains":
			return "FContains"
		case "stringsEqual":
			fd := so.method("", "stringsEqual")
			p := qParamNames(fd)
			if len(p) == 2 {
				l := so.qBodyLines(fd)
				if qSameLines(l, []string{"return " + p[0] + " == " + p[1]}) || qSameLines(l, []string{"return " + p[1] + " == " + p[0]}) {
					return "FEq"
				}
			}
			die("stringsEqual: body is not `return source == target`")
		}
		die("matcher.%s is bound to %s, which the model does not know", name, so.qsrc(e))
		return ""
	}
	o.line("(* matcher/string_operator.go *)")
	for _, n := range []string{"StringEquals", "StringStartsWith", "StringEndsWith", "StringContains"} {
		o.line("Definition op_%s : strfun := %s.", n, strfun(n))
	}

	// JobName.IsMatch / JobGroup.IsMatch: return (*r.Operator)(job.JobDetail().JobKey().<Acc>(), r.Pattern)
	accField := map[string]string{"Name": "FieldName", "Group": "FieldGroup"}
	isMatch := func(path, typ string) (field string, sourceFirst bool) {
		mf := parse(path)
		fd := mf.method(typ, "IsMatch")
		rn := qRecvName(fd)
		jp := qParamNames(fd)
		if len(jp) != 1 {
			die("%s.IsMatch: expected one parameter", typ)
		}
		call, ok := qSingleReturn(mf, fd, typ+".IsMatch").(*ast.CallExpr)
		if !ok || len(call.Args) != 2 || mf.qsrc(unparen(call.Fun)) != "*"+rn+".Operator" {
			die("%s.IsMatch: expected a call of (*%s.Operator) with two arguments", typ, rn)
		}
		a0, a1 := mf.qsrc(call.Args[0]), mf.qsrc(call.Args[1])
		pat := rn + ".Pattern"
		var acc string
		switch {
		case a1 == pat:
			acc, sourceFirst = a0, true
		case a0 == pat:
			acc, sourceFirst = a1, false
		default:
			die("%s.IsMatch: no argument is %s", typ, pat)
		}
		for an, cf := range accField {
			if acc == jp[0]+".JobDetail().JobKey()."+an+"()" {
				return cf, sourceFirst
			}
		}
		die("%s.IsMatch: the other argument is not a key accessor of the job: %s", typ, acc)
		return
	}
	nf, ns := isMatch("matcher/job_name.go", "JobName")
	gf, gs := isMatch("matcher/job_group.go", "JobGroup")
	if ns != gs {
		die("JobName.IsMatch and JobGroup.IsMatch pass their arguments in different orders")
	}
	o.line("(* matcher/job_name.go, job_group.go IsMatch applies the operator to (<key field>, Pattern) *)")
	o.line("Definition jobname_field : keyfield := %s.", nf)
	o.line("Definition jobgroup_field : keyfield := %s.", gf)
	o.line("Definition matcher_source_first : bool := %s.", coqBool(ns))

	// JobStatus.IsMatch: return job.JobDetail().Options().Suspended <op> s.Suspended
	js := parse("matcher/job_status.go")
	sm := js.method("JobStatus", "IsMatch")
	sb, ok := qSingleReturn(js, sm, "JobStatus.IsMatch").(*ast.BinaryExpr)
	if !ok {
		die("JobStatus.IsMatch: expected a comparison")
	}
	sjp := qParamNames(sm)
	if len(sjp) != 1 {
		die("JobStatus.IsMatch: expected one parameter")
	}
	sl, srr := js.qsrc(sb.X), js.qsrc(sb.Y)
	jobS, recS := sjp[0]+".JobDetail().Options().Suspended", qRecvName(sm)+".Suspended"
	sop := sb.Op
	switch {
	case sl == jobS && srr == recS:
	case sl == recS && srr == jobS:
		sop = qMirror(sop)
	default:
		die("JobStatus.IsMatch: operands are not %s and %s", jobS, recS)
	}
	o.line("(* matcher/job_status.go IsMatch: Options().Suspended <op> s.Suspended *)")
	o.line("Definition status_op : cmp_op := %s.", cmpOp(sop))
}
