package main

// Section "csmsrc": a source-to-Gallina translator for the node level of the cron state machine
// (internal/csm/util.go, common_node.go, day_node.go and the constants of node.go).
//
// Unlike the other sections, which copy tables and structural facts, this one translates whole
// function bodies.  Every FuncDecl of the three files is translated (a new function is translated
// too, or the translator fails closed on a construct it does not know); the result is
// coq/cron/theories/Gen/CsmSrc.v.  coq/cron/theories/SrcEquiv.v proves that the generated
// functions compute exactly what the hand-written model CsmModel.v computes, so the theorems of
// Props/C01 C02 C06 C14 are re-checked against what the source says now: a change of one of these
// functions changes CsmSrc.v and breaks SrcEquiv.v unless it is behaviour-preserving up to the
// proof's robustness.
//
// Translation scheme (the trusted part; kept deliberately small and syntax-directed):
//   int, time.Month, time.Weekday, NodeID, result, type parameters      -> Z (unbounded; no overflow)
//   bool -> bool;  []int -> list Z;  time.Time -> GoTime.gotime (day number; only midnight UTC dates)
//   struct -> Record with one projection per field (S_f) and one setter per field (set_S_f)
//   an interface-typed field (csmNode) on which only Value() is called -> Z (the node's current value)
//   func with pointer receiver that (transitively) assigns to the receiver -> returns (receiver', results)
//   statements -> continuation-passing: `x := e; rest` = let x := e in rest; `if c {A}; rest` =
//     if c then [A; rest] else [rest]; return = the value; for-range / counted for with constant
//     bounds -> a local structural `fix` over the list, carrying the variables assigned in the body;
//     break/continue -> the loop's exit / next-iteration continuation; tagless switch -> if-chain
//   expressions -> pure Gallina terms; a call of a mutating method is bound first (left to right),
//     && and || with an effectful right operand become `if`
//   a % b -> Z.rem a b (Go truncates);  a & b -> Z.land;  xs[i] -> go_index xs i (0 when out of range:
//     Go would panic; absence of panics is observed by the harness, not proved here)
//   len(xs) -> Z.of_nat (length xs);  make([]T, 0) -> [];  conversions int(x), time.Month(x) -> x
//   time.Date(y, time.Month(m), d, 0, 0, 0, 0, time.UTC) -> time_Date y m d;  t.Day/Month/Weekday/AddDate
//     -> GoTime.time_*

import (
	"fmt"
	"go/ast"
	"go/token"
	"sort"
	"strings"
)

func init() { sections["csmsrc"] = genCsmSrc }

type gfield struct{ name, typ string }

type gstruct struct {
	name   string
	fields []gfield
}

type gfunc struct {
	decl     *ast.FuncDecl
	file     *file
	goName   string // "contains" or "CommonNode.Next"
	coqName  string // g_contains, g_CommonNode_Next
	recv     string // receiver variable name
	recvType string // struct name
	params   []gfield
	results  []string
	mutates  bool
}

type csmTr struct {
	structs map[string]*gstruct
	funcs   map[string]*gfunc // by goName
	consts  map[string]int64
	order   []string
	texts   map[string]string
	state   map[string]int
	// loc: time.Time values carry a location (quartz/cron.go): they are GoTimeLoc.gtime records, not day numbers
	loc bool
}

func (t *csmTr) gtype(f *file, e ast.Expr) string {
	switch x := e.(type) {
	case *ast.Ident:
		switch x.Name {
		case "int", "NodeID", "result", "T":
			return "Z"
		case "int64", "error":
			if t.loc {
				return "Z" // error: 0 = nil, otherwise the code of a sentinel (c_Err...)
			}
		case "bool":
			return "bool"
		case "csmNode":
			return "Z" // value-only view of an interface-typed node (checked: only Value() is called)
		}
		if _, ok := t.structs[x.Name]; ok {
			return x.Name
		}
	case *ast.StarExpr:
		return t.gtype(f, x.X)
	case *ast.ArrayType:
		if x.Len == nil && t.gtype(f, x.Elt) == "Z" {
			return "list Z"
		}
		if x.Len == nil && t.loc && t.gtype(f, x.Elt) == "gtime" {
			return "list gtime"
		}
		if st, ok := x.Elt.(*ast.StarExpr); ok && x.Len == nil && t.loc {
			if id, ok := st.X.(*ast.Ident); ok && id.Name == "cronField" {
				return "fields" // the parsed expression (QzBase.Fields), opaque here
			}
		}
	case *ast.SelectorExpr:
		switch callName(x) {
		case "time.Time":
			if t.loc {
				return "gtime"
			}
			return "gotime"
		case "time.Location":
			if t.loc {
				return "zone"
			}
		case "time.Month", "time.Weekday", "time.Duration":
			return "Z"
		}
	}
	die("%s: unsupported type at %s", f.path, f.fset.Position(e.Pos()))
	return ""
}

func coqType(ty string) string { return ty }

func genCsmSrc(o *out) {
	t := &csmTr{structs: map[string]*gstruct{}, funcs: map[string]*gfunc{}, consts: map[string]int64{}}
	files := []*file{parse("internal/csm/util.go"), parse("internal/csm/common_node.go"), parse("internal/csm/day_node.go")}
	nodeFile := parse("internal/csm/node.go")
	// constants: explicit ints and iota blocks
	var structOrder []string
	collectConsts := func(f *file) {
		for _, d := range f.f.Decls {
			g, ok := d.(*ast.GenDecl)
			if !ok || g.Tok != token.CONST {
				continue
			}
			iotaBlock := false
			for i, s := range g.Specs {
				vs := s.(*ast.ValueSpec)
				if len(vs.Names) != 1 {
					die("%s: multi-name const", f.path)
				}
				if len(vs.Values) == 1 {
					if id, ok := vs.Values[0].(*ast.Ident); ok && id.Name == "iota" {
						if i != 0 {
							die("%s: iota not at the head of its block", f.path)
						}
						iotaBlock = true
						t.consts[vs.Names[0].Name] = 0
						continue
					}
					iotaBlock = false
					t.consts[vs.Names[0].Name] = f.intOf(vs.Values[0])
					continue
				}
				if len(vs.Values) == 0 && iotaBlock {
					t.consts[vs.Names[0].Name] = int64(i)
					continue
				}
				die("%s: unsupported const %s", f.path, vs.Names[0].Name)
			}
		}
	}
	collectConsts(nodeFile)
	for _, f := range files {
		collectConsts(f)
	}
	// structs (two passes so that DayNode can embed CommonNode whatever the file order)
	for pass := 0; pass < 2; pass++ {
		for _, f := range files {
			for _, d := range f.f.Decls {
				g, ok := d.(*ast.GenDecl)
				if !ok || g.Tok != token.TYPE {
					continue
				}
				for _, s := range g.Specs {
					ts := s.(*ast.TypeSpec)
					st, ok := ts.Type.(*ast.StructType)
					if !ok {
						die("%s: type %s is not a struct", f.path, ts.Name.Name)
					}
					if pass == 0 {
						t.structs[ts.Name.Name] = &gstruct{name: ts.Name.Name}
						structOrder = append(structOrder, ts.Name.Name)
						continue
					}
					gs := t.structs[ts.Name.Name]
					for _, fl := range st.Fields.List {
						if len(fl.Names) == 0 {
							die("%s: embedded field in %s", f.path, ts.Name.Name)
						}
						for _, n := range fl.Names {
							gs.fields = append(gs.fields, gfield{n.Name, t.gtype(f, fl.Type)})
						}
					}
				}
			}
		}
	}
	// functions
	for _, f := range files {
		for _, d := range f.f.Decls {
			fd, ok := d.(*ast.FuncDecl)
			if !ok {
				continue
			}
			gf := &gfunc{decl: fd, file: f}
			if fd.Recv != nil {
				r := fd.Recv.List[0]
				if len(r.Names) != 1 {
					die("%s: receiver of %s has no name", f.path, fd.Name.Name)
				}
				gf.recv = r.Names[0].Name
				gf.recvType = t.gtype(f, r.Type)
				gf.goName = gf.recvType + "." + fd.Name.Name
				gf.coqName = "g_" + gf.recvType + "_" + fd.Name.Name
			} else {
				gf.goName = fd.Name.Name
				gf.coqName = "g_" + fd.Name.Name
			}
			for _, p := range fd.Type.Params.List {
				for _, n := range p.Names {
					gf.params = append(gf.params, gfield{n.Name, t.gtype(f, p.Type)})
				}
			}
			if fd.Type.Results != nil {
				for _, r := range fd.Type.Results.List {
					k := len(r.Names)
					if k == 0 {
						k = 1
					}
					for i := 0; i < k; i++ {
						gf.results = append(gf.results, t.gtype(f, r.Type))
					}
				}
			}
			t.funcs[gf.goName] = gf
		}
	}
	// mutation analysis (fixpoint) and dependencies
	for changed := true; changed; {
		changed = false
		for _, gf := range t.funcs {
			if gf.recv == "" || gf.mutates {
				continue
			}
			if t.bodyMutates(gf) {
				gf.mutates = true
				changed = true
			}
		}
	}
	o.line("(* Source-to-Gallina translation of internal/csm/util.go, common_node.go, day_node.go (see harness/cmd/genparams/csmsrc.go). *)")
	o.line("From Coq Require Import ZArith List Bool.")
	o.line("Require Import QzBase.Calendar QzBase.GoTime.")
	o.line("Import ListNotations.")
	o.line("Open Scope Z_scope.")
	o.line("")
	o.line("Definition go_index (xs : list Z) (i : Z) : Z := nth (Z.to_nat i) xs 0.")
	o.line("")
	var cn []string
	for n := range t.consts {
		cn = append(cn, n)
	}
	sort.Strings(cn)
	for _, n := range cn {
		o.line("Definition c_%s : Z := %s.", n, coqZ(t.consts[n]))
	}
	o.line("")
	for _, sn := range structOrder {
		gs := t.structs[sn]
		var fs []string
		for _, f := range gs.fields {
			fs = append(fs, fmt.Sprintf("%s_%s : %s", sn, f.name, coqType(f.typ)))
		}
		o.line("Record %s := { %s }.", sn, strings.Join(fs, "; "))
		for _, f := range gs.fields {
			var as []string
			for _, f2 := range gs.fields {
				if f2.name == f.name {
					as = append(as, fmt.Sprintf("%s_%s := v__", sn, f2.name))
				} else {
					as = append(as, fmt.Sprintf("%s_%s := %s_%s s__", sn, f2.name, sn, f2.name))
				}
			}
			o.line("Definition set_%s_%s (s__ : %s) (v__ : %s) : %s := {| %s |}.", sn, f.name, sn, coqType(f.typ), sn, strings.Join(as, "; "))
		}
		o.line("")
	}
	var names []string
	for n := range t.funcs {
		names = append(names, n)
	}
	sort.Strings(names)
	t.texts = map[string]string{}
	t.state = map[string]int{}
	for _, n := range names {
		t.require(t.funcs[n])
	}
	for _, n := range t.order {
		o.line("%s", t.texts[n])
	}
}

// require translates gf (once), after the functions it calls; a cycle is not translatable.
func (t *csmTr) require(gf *gfunc) {
	switch t.state[gf.goName] {
	case 2:
		return
	case 1:
		die("internal/csm: %s is recursive; recursive node-level functions are not translatable", gf.goName)
	}
	t.state[gf.goName] = 1
	renameReserved(gf.decl)
	o := &out{}
	fc := &fnCtx{t: t, fn: gf, env: map[string]string{}}
	var ps []string
	if gf.recv != "" {
		fc.env[gf.recv] = gf.recvType
		ps = append(ps, fmt.Sprintf("(%s : %s)", gf.recv, gf.recvType))
	}
	for _, p := range gf.params {
		fc.env[p.name] = p.typ
		ps = append(ps, fmt.Sprintf("(%s : %s)", p.name, coqType(p.typ)))
	}
	body := fc.stmts(gf.decl.Body.List, func() string {
		if len(gf.results) != 0 {
			die("%s: %s can fall off its end", gf.file.path, gf.goName)
		}
		return fc.ret(nil)
	})
	mut := ""
	if gf.mutates {
		mut = "  (assigns to its receiver: returns the receiver's new value first)"
	}
	o.line("(* %s: func %s%s *)", gf.file.path, gf.goName, mut)
	o.line("Definition %s %s : %s :=\n  %s.", gf.coqName, strings.Join(ps, " "), fc.retType(), body)
	t.texts[gf.goName] = o.b.String()
	t.state[gf.goName] = 2
	t.order = append(t.order, gf.goName)
}

// rootIdent returns the root identifier and the field path of a selector chain (n.c.value -> n, [c value]).
func rootIdent(e ast.Expr) (string, []string, bool) {
	switch x := e.(type) {
	case *ast.Ident:
		return x.Name, nil, true
	case *ast.SelectorExpr:
		r, p, ok := rootIdent(x.X)
		return r, append(p, x.Sel.Name), ok
	case *ast.ParenExpr:
		return rootIdent(x.X)
	}
	return "", nil, false
}

func (t *csmTr) bodyMutates(gf *gfunc) bool {
	mut := false
	ast.Inspect(gf.decl.Body, func(n ast.Node) bool {
		switch x := n.(type) {
		case *ast.AssignStmt:
			for _, l := range x.Lhs {
				if r, p, ok := rootIdent(l); ok && r == gf.recv && len(p) > 0 {
					mut = true
				}
			}
		case *ast.IncDecStmt:
			if r, p, ok := rootIdent(x.X); ok && r == gf.recv && len(p) > 0 {
				mut = true
			}
		case *ast.CallExpr:
			if se, ok := x.Fun.(*ast.SelectorExpr); ok {
				if r, p, ok := rootIdent(se.X); ok && r == gf.recv {
					ty := t.pathType(gf.recvType, p)
					if callee, ok := t.funcs[ty+"."+se.Sel.Name]; ok && callee.mutates {
						mut = true
					}
				}
			}
		}
		return true
	})
	return mut
}

// pathType follows a field path from a struct type; "" if it leaves the known structs.
func (t *csmTr) pathType(ty string, path []string) string {
	for _, p := range path {
		gs, ok := t.structs[ty]
		if !ok {
			return ""
		}
		found := false
		for _, f := range gs.fields {
			if f.name == p {
				ty = f.typ
				found = true
			}
		}
		if !found {
			return ""
		}
	}
	return ty
}

type loopCtx struct {
	cont, brk func() string
}

type fnCtx struct {
	t    *csmTr
	fn   *gfunc
	env  map[string]string
	loop *loopCtx
	tmp  int
	// inFor: inside the body of an unbounded `for { }`: a return is `inr value`, continue is `inl state`
	inFor bool
}

func (c *fnCtx) pos(n ast.Node) string { return c.fn.file.fset.Position(n.Pos()).String() }

func (c *fnCtx) fresh(p string) string { c.tmp++; return fmt.Sprintf("%s__%d", p, c.tmp) }

func hasUnboundedFor(fd *ast.FuncDecl) bool {
	found := false
	ast.Inspect(fd.Body, func(n ast.Node) bool {
		if f, ok := n.(*ast.ForStmt); ok && f.Init == nil && f.Cond == nil && f.Post == nil {
			found = true
		}
		return true
	})
	return found
}

func (c *fnCtx) retType() string {
	if hasUnboundedFor(c.fn.decl) {
		return "option " + c.retType0()
	}
	return c.retType0()
}

func (c *fnCtx) retType0() string {
	var parts []string
	if c.fn.mutates {
		parts = append(parts, c.fn.recvType)
	}
	for _, r := range c.fn.results {
		parts = append(parts, coqType(r))
	}
	switch len(parts) {
	case 0:
		return "unit"
	case 1:
		return parts[0]
	}
	return "(" + strings.Join(parts, " * ") + ")"
}

func (c *fnCtx) ret(vals []string) string {
	r := c.ret0(vals)
	if c.inFor {
		return "(inr " + r + ")"
	}
	if hasUnboundedFor(c.fn.decl) {
		return "(Some " + r + ")"
	}
	return r
}

func (c *fnCtx) ret0(vals []string) string {
	var parts []string
	if c.fn.mutates {
		parts = append(parts, c.fn.recv)
	}
	parts = append(parts, vals...)
	switch len(parts) {
	case 0:
		return "tt"
	case 1:
		return parts[0]
	}
	return "(" + strings.Join(parts, ", ") + ")"
}

// setPath renders the record update root.path := v.
func (c *fnCtx) setPath(root string, path []string, v string) string {
	ty := c.env[root]
	if len(path) == 0 {
		return v
	}
	// build from the inside out
	type lvl struct{ ty, expr, field string }
	var lv []lvl
	cur := root
	for _, p := range path {
		lv = append(lv, lvl{ty, cur, p})
		cur = fmt.Sprintf("(%s_%s %s)", ty, p, cur)
		ty = c.t.pathType(ty, []string{p})
		if ty == "" {
			die("%s: unknown field path %s.%s", c.fn.file.path, root, strings.Join(path, "."))
		}
	}
	for i := len(lv) - 1; i >= 0; i-- {
		v = fmt.Sprintf("(set_%s_%s %s %s)", lv[i].ty, lv[i].field, lv[i].expr, v)
	}
	return v
}

func (c *fnCtx) getPath(root string, path []string) string {
	ty := c.env[root]
	cur := root
	for _, p := range path {
		cur = fmt.Sprintf("(%s_%s %s)", ty, p, cur)
		ty = c.t.pathType(ty, []string{p})
		if ty == "" {
			die("%s: unknown field path %s.%s", c.fn.file.path, root, strings.Join(path, "."))
		}
	}
	return cur
}

// assigned collects the variables (already in env) and the receiver assigned inside a statement list.
func (c *fnCtx) assigned(list []ast.Stmt) []string {
	set := map[string]bool{}
	for _, s := range list {
		ast.Inspect(s, func(n ast.Node) bool {
			switch x := n.(type) {
			case *ast.AssignStmt:
				for _, l := range x.Lhs {
					if r, _, ok := rootIdent(l); ok {
						if _, known := c.env[r]; known && !(x.Tok == token.DEFINE && len(x.Lhs) > 0 && isIdent(l)) {
							set[r] = true
						}
					}
				}
			case *ast.IncDecStmt:
				if r, _, ok := rootIdent(x.X); ok {
					if _, known := c.env[r]; known {
						set[r] = true
					}
				}
			case *ast.CallExpr:
				if se, ok := x.Fun.(*ast.SelectorExpr); ok {
					if r, p, ok := rootIdent(se.X); ok {
						if ty, known := c.env[r]; known {
							if callee, ok := c.t.funcs[c.t.pathType(ty, p)+"."+se.Sel.Name]; ok && callee.mutates {
								set[r] = true
							}
						}
					}
				}
			}
			return true
		})
	}
	var out []string
	for n := range set {
		out = append(out, n)
	}
	sort.Strings(out)
	return out
}

func isIdent(e ast.Expr) bool { _, ok := e.(*ast.Ident); return ok }

func (c *fnCtx) stmts(list []ast.Stmt, k func() string) string {
	if len(list) == 0 {
		return k()
	}
	s, rest := list[0], list[1:]
	next := func() string { return c.stmts(rest, k) }
	switch x := s.(type) {
	case *ast.BlockStmt:
		return c.stmts(x.List, next)
	case *ast.ReturnStmt:
		return c.exprs(x.Results, func(vs []string) string {
			if len(x.Results) == 1 && len(c.fn.results) == 2 {
				// return f() with a two-valued f
				a, b := c.fresh("r"), c.fresh("r")
				return fmt.Sprintf("let '(%s, %s) := %s in %s", a, b, vs[0], c.ret([]string{a, b}))
			}
			if len(vs) != len(c.fn.results) {
				die("%s: return arity at %s", c.fn.file.path, c.pos(x))
			}
			return c.ret(vs)
		})
	case *ast.ExprStmt:
		return c.expr(x.X, func(string) string { return next() })
	case *ast.IncDecStmt:
		op := token.ADD
		if x.Tok == token.DEC {
			op = token.SUB
		}
		return c.assign(x.X, &ast.BinaryExpr{X: x.X, Op: op, Y: &ast.BasicLit{Kind: token.INT, Value: "1"}}, next)
	case *ast.AssignStmt:
		switch x.Tok {
		case token.ADD_ASSIGN, token.SUB_ASSIGN, token.MUL_ASSIGN:
			op := map[token.Token]token.Token{token.ADD_ASSIGN: token.ADD, token.SUB_ASSIGN: token.SUB, token.MUL_ASSIGN: token.MUL}[x.Tok]
			return c.assign(x.Lhs[0], &ast.BinaryExpr{X: x.Lhs[0], Op: op, Y: x.Rhs[0]}, next)
		case token.ASSIGN, token.DEFINE:
		default:
			die("%s: unsupported assignment operator at %s", c.fn.file.path, c.pos(x))
		}
		if len(x.Lhs) >= 2 && len(x.Rhs) == 1 {
			var names []string
			for _, l := range x.Lhs {
				id, ok := l.(*ast.Ident)
				if !ok {
					die("%s: unsupported tuple assignment at %s", c.fn.file.path, c.pos(x))
				}
				names = append(names, id.Name)
			}
			tys := c.resultTypes(x.Rhs[0])
			if len(tys) != len(names) {
				die("%s: %d-valued call expected at %s", c.fn.file.path, len(names), c.pos(x))
			}
			return c.expr(x.Rhs[0], func(v string) string {
				for i, n := range names {
					if n != "_" {
						c.env[n] = tys[i]
					}
				}
				return fmt.Sprintf("let '(%s) := %s in\n  %s", strings.Join(names, ", "), v, next())
			})
		}
		if len(x.Lhs) != len(x.Rhs) {
			die("%s: unsupported assignment at %s", c.fn.file.path, c.pos(x))
		}
		if len(x.Lhs) == 1 {
			return c.assign(x.Lhs[0], x.Rhs[0], next)
		}
		// parallel assignment: all right-hand sides first
		var tys []string
		for _, r := range x.Rhs {
			tys = append(tys, c.typeOf(r))
		}
		return c.exprs(x.Rhs, func(vs []string) string {
			var tmps []string
			pre := ""
			for _, v := range vs {
				tn := c.fresh("p")
				tmps = append(tmps, tn)
				pre += fmt.Sprintf("let %s := %s in ", tn, v)
			}
			var bind func(i int) string
			bind = func(i int) string {
				if i == len(x.Lhs) {
					return next()
				}
				return c.assignVal(x.Lhs[i], tmps[i], tys[i], func() string { return bind(i + 1) })
			}
			return pre + bind(0)
		})
	case *ast.IfStmt:
		if x.Init != nil {
			die("%s: if with an init statement at %s", c.fn.file.path, c.pos(x))
		}
		return c.expr(x.Cond, func(cv string) string {
			saved := c.copyEnv()
			th := c.stmts(x.Body.List, next)
			c.env = saved
			var el string
			saved = c.copyEnv()
			if x.Else != nil {
				el = c.stmts([]ast.Stmt{x.Else}, next)
			} else {
				el = next()
			}
			c.env = saved
			return fmt.Sprintf("if %s then\n  %s\n  else\n  %s", cv, th, el)
		})
	case *ast.SwitchStmt:
		if x.Init != nil || x.Tag != nil {
			die("%s: only tagless switches are supported (%s)", c.fn.file.path, c.pos(x))
		}
		var chain func(i int) string
		var deflt *ast.CaseClause
		var cases []*ast.CaseClause
		for _, cl := range x.Body.List {
			cc := cl.(*ast.CaseClause)
			if cc.List == nil {
				deflt = cc
			} else {
				cases = append(cases, cc)
			}
			ast.Inspect(cc, func(n ast.Node) bool {
				if b, ok := n.(*ast.BranchStmt); ok && (b.Tok == token.BREAK || b.Tok == token.FALLTHROUGH) {
					die("%s: break/fallthrough inside a switch at %s", c.fn.file.path, c.pos(b))
				}
				return true
			})
		}
		chain = func(i int) string {
			if i == len(cases) {
				if deflt != nil {
					return c.stmts(deflt.Body, next)
				}
				return next()
			}
			var cond ast.Expr = cases[i].List[0]
			for _, e := range cases[i].List[1:] {
				cond = &ast.BinaryExpr{X: cond, Op: token.LOR, Y: e}
			}
			return c.expr(cond, func(cv string) string {
				saved := c.copyEnv()
				th := c.stmts(cases[i].Body, next)
				c.env = saved
				saved = c.copyEnv()
				el := chain(i + 1)
				c.env = saved
				return fmt.Sprintf("if %s then\n  %s\n  else\n  %s", cv, th, el)
			})
		}
		return chain(0)
	case *ast.RangeStmt:
		if x.Tok != token.DEFINE || x.Key == nil || !isIdent(x.Key) || x.Key.(*ast.Ident).Name != "_" || x.Value == nil || !isIdent(x.Value) {
			die("%s: only `for _, v := range xs` is supported (%s)", c.fn.file.path, c.pos(x))
		}
		lty := c.typeOf(x.X)
		if !strings.HasPrefix(lty, "list ") || c.hasEffects(x.X) {
			die("%s: range over a non-slice or effectful expression at %s", c.fn.file.path, c.pos(x))
		}
		return c.expr(x.X, func(xs string) string {
			return c.loopOverT(xs, strings.TrimPrefix(lty, "list "), x.Value.(*ast.Ident).Name, x.Body.List, next)
		})
	case *ast.ForStmt:
		if x.Init == nil && x.Cond == nil && x.Post == nil {
			// for { body }: every path of the body ends in return or continue (break is not supported); the state is
			// the tuple of outer variables assigned in the body; go_loop runs the body under an iteration budget
			if c.inFor || c.loop != nil {
				die("%s: nested unbounded loop at %s", c.fn.file.path, c.pos(x))
			}
			ast.Inspect(x.Body, func(n ast.Node) bool {
				if b, ok := n.(*ast.BranchStmt); ok && b.Tok == token.BREAK {
					die("%s: break inside an unbounded loop at %s", c.fn.file.path, c.pos(b))
				}
				return true
			})
			carried := c.assigned(x.Body.List)
			if len(carried) != 1 {
				die("%s: an unbounded loop must carry exactly one variable (%v) at %s", c.fn.file.path, carried, c.pos(x))
			}
			st := carried[0]
			saved := c.copyEnv()
			c.inFor = true
			c.loop = &loopCtx{cont: func() string { return "(inl " + st + ")" }, brk: func() string { die("break"); return "" }}
			body := c.stmts(x.Body.List, func() string { return "(inl " + st + ")" })
			c.loop = nil
			c.inFor = false
			c.env = saved
			return fmt.Sprintf("go_loop (fun %s : %s =>\n  %s) %s", st, coqType(c.env[st]), body, st)
		}
		// for i := A; i <= B; i++  with constant A, B and a body that does not assign i
		as, ok1 := x.Init.(*ast.AssignStmt)
		cond, ok2 := x.Cond.(*ast.BinaryExpr)
		post, ok3 := x.Post.(*ast.IncDecStmt)
		if !ok1 || !ok2 || !ok3 || as.Tok != token.DEFINE || len(as.Lhs) != 1 || !isIdent(as.Lhs[0]) || post.Tok != token.INC {
			die("%s: unsupported for statement at %s", c.fn.file.path, c.pos(x))
		}
		iv := as.Lhs[0].(*ast.Ident).Name
		if id, ok := cond.X.(*ast.Ident); !ok || id.Name != iv {
			die("%s: unsupported for condition at %s", c.fn.file.path, c.pos(x))
		}
		if id, ok := post.X.(*ast.Ident); !ok || id.Name != iv {
			die("%s: unsupported for post statement at %s", c.fn.file.path, c.pos(x))
		}
		lo, hi := c.fn.file.intOf(as.Rhs[0]), c.fn.file.intOf(cond.Y)
		switch cond.Op {
		case token.LEQ:
		case token.LSS:
			hi--
		default:
			die("%s: unsupported for condition operator at %s", c.fn.file.path, c.pos(x))
		}
		if hi-lo > 1000 {
			die("%s: counted loop too long at %s", c.fn.file.path, c.pos(x))
		}
		c.env[iv] = "Z"
		for _, a := range c.assigned(x.Body.List) {
			if a == iv {
				die("%s: loop variable assigned in the body at %s", c.fn.file.path, c.pos(x))
			}
		}
		delete(c.env, iv)
		var vals []int64
		for v := lo; v <= hi; v++ {
			vals = append(vals, v)
		}
		return c.loopOver(coqZList(vals), iv, x.Body.List, next)
	case *ast.DeclStmt:
		gd, ok := x.Decl.(*ast.GenDecl)
		if !ok || gd.Tok != token.VAR || len(gd.Specs) != 1 {
			die("%s: unsupported declaration at %s", c.fn.file.path, c.pos(x))
		}
		vs := gd.Specs[0].(*ast.ValueSpec)
		if len(vs.Names) != 1 || len(vs.Values) != 0 || vs.Type == nil {
			die("%s: only `var x T` is supported (%s)", c.fn.file.path, c.pos(x))
		}
		ty := c.t.gtype(c.fn.file, vs.Type)
		zero := map[string]string{"Z": "0", "bool": "false", "gtime": "time_zeroTime"}[ty]
		if zero == "" {
			die("%s: no zero value for %s at %s", c.fn.file.path, ty, c.pos(x))
		}
		c.env[vs.Names[0].Name] = ty
		return fmt.Sprintf("let %s := %s in\n  %s", vs.Names[0].Name, zero, next())
	case *ast.BranchStmt:
		if c.loop == nil || x.Label != nil {
			die("%s: branch statement outside a loop at %s", c.fn.file.path, c.pos(x))
		}
		switch x.Tok {
		case token.BREAK:
			return c.loop.brk()
		case token.CONTINUE:
			return c.loop.cont()
		}
	}
	die("%s: unsupported statement at %s", c.fn.file.path, c.pos(s))
	return ""
}

func (c *fnCtx) copyEnv() map[string]string {
	m := map[string]string{}
	for k, v := range c.env {
		m[k] = v
	}
	return m
}

// loopOver emits a structural fix over the list xs; the variables assigned in the body are carried.
func (c *fnCtx) loopOver(xs, v string, body []ast.Stmt, after func() string) string {
	return c.loopOverT(xs, "Z", v, body, after)
}

func (c *fnCtx) loopOverT(xs, elem, v string, body []ast.Stmt, after func() string) string {
	carried := c.assigned(body)
	name := c.fresh("loop")
	lv := c.fresh("l")
	var params, args []string
	for _, a := range carried {
		params = append(params, fmt.Sprintf("(%s : %s)", a, coqType(c.env[a])))
		args = append(args, a)
	}
	saved := c.copyEnv()
	outer := c.loop
	afterTxt := func() string {
		sv := c.copyEnv()
		l := c.loop
		c.loop = outer
		s := after()
		c.loop = l
		c.env = sv
		return s
	}
	c.env[v] = elem
	c.loop = &loopCtx{
		cont: func() string { return strings.TrimSpace(fmt.Sprintf("%s %s' %s", name, lv, strings.Join(args, " "))) },
		brk:  afterTxt,
	}
	bodyTxt := c.stmts(body, c.loop.cont)
	c.loop = outer
	c.env = saved
	nilTxt := afterTxt()
	return fmt.Sprintf("(fix %s (%s : list %s) %s {struct %s} : %s :=\n  match %s with\n  | [] =>\n  %s\n  | %s :: %s' =>\n  %s\n  end) %s %s",
		name, lv, elem, strings.Join(params, " "), lv, c.retType(), lv, nilTxt, v, lv, bodyTxt, xs, strings.Join(args, " "))
}

func (c *fnCtx) assign(lhs, rhs ast.Expr, next func() string) string {
	ty := c.typeOf(rhs)
	return c.expr(rhs, func(v string) string { return c.assignVal(lhs, v, ty, next) })
}

func (c *fnCtx) assignVal(lhs ast.Expr, v, ty string, next func() string) string {
	root, path, ok := rootIdent(lhs)
	if !ok {
		die("%s: unsupported assignment target at %s", c.fn.file.path, c.pos(lhs))
	}
	if root == "_" {
		return next()
	}
	if len(path) == 0 {
		c.env[root] = ty
		return fmt.Sprintf("let %s := %s in\n  %s", root, v, next())
	}
	if _, known := c.env[root]; !known {
		die("%s: assignment through unknown variable %s", c.fn.file.path, root)
	}
	return fmt.Sprintf("let %s := %s in\n  %s", root, c.setPath(root, path, v), next())
}

// resultTypes of a call expression.
func (c *fnCtx) resultTypes(e ast.Expr) []string {
	call, ok := unparen(e).(*ast.CallExpr)
	if !ok {
		return []string{c.typeOf(e)}
	}
	if gf := c.callee(call); gf != nil {
		return gf.results
	}
	if se, ok := call.Fun.(*ast.SelectorExpr); ok {
		if id, isPkg := se.X.(*ast.Ident); !(isPkg && id.Name == "time") {
			switch c.typeOf(se.X) {
			case "gtime":
				if r, ok := gtimeMethods[se.Sel.Name]; ok {
					return r
				}
			case "csmh":
				if r, ok := csmhMethods[se.Sel.Name]; ok {
					return r
				}
			}
		}
	}
	return []string{c.typeOf(e)}
}

// callee resolves a call to a translated function or method (nil for builtins and the time package).
func (c *fnCtx) callee(call *ast.CallExpr) *gfunc {
	gf := c.callee0(call)
	if gf != nil && gf != c.fn {
		c.t.require(gf)
	} else if gf != nil {
		die("%s: %s calls itself", c.fn.file.path, gf.goName)
	}
	return gf
}

func (c *fnCtx) callee0(call *ast.CallExpr) *gfunc {
	switch fn := call.Fun.(type) {
	case *ast.Ident:
		return c.t.funcs[fn.Name]
	case *ast.IndexExpr:
		if id, ok := fn.X.(*ast.Ident); ok {
			return c.t.funcs[id.Name]
		}
	case *ast.SelectorExpr:
		if id, ok := fn.X.(*ast.Ident); ok && id.Name == "time" {
			return nil
		}
		ty := c.typeOf(fn.X)
		return c.t.funcs[ty+"."+fn.Sel.Name]
	}
	return nil
}

func (c *fnCtx) typeOf(e ast.Expr) string {
	switch x := unparen(e).(type) {
	case *ast.BasicLit:
		if x.Kind == token.INT {
			return "Z"
		}
	case *ast.Ident:
		if x.Name == "true" || x.Name == "false" {
			return "bool"
		}
		if ty, ok := c.env[x.Name]; ok {
			return ty
		}
		if _, ok := c.t.consts[x.Name]; ok {
			return "Z"
		}
		if c.t.loc && x.Name == "nil" {
			return "Z"
		}
		if c.t.loc && x.Name == "maxTime" {
			return "gtime"
		}
	case *ast.SelectorExpr:
		if id, ok := x.X.(*ast.Ident); ok && id.Name == "time" {
			if x.Sel.Name == "UTC" {
				return "zone"
			}
			return "Z" // time.Saturday, time.Sunday, time.Second
		}
		ty := c.typeOf(x.X)
		if r := c.t.pathType(ty, []string{x.Sel.Name}); r != "" {
			return r
		}
	case *ast.IndexExpr:
		return "Z"
	case *ast.UnaryExpr:
		switch x.Op {
		case token.NOT:
			return "bool"
		case token.SUB, token.ADD:
			return "Z"
		case token.AND:
			return c.typeOf(x.X)
		}
	case *ast.CompositeLit:
		return c.t.gtype(c.fn.file, x.Type)
	case *ast.BinaryExpr:
		switch x.Op {
		case token.LAND, token.LOR, token.EQL, token.NEQ, token.LSS, token.LEQ, token.GTR, token.GEQ:
			return "bool"
		}
		return "Z"
	case *ast.CallExpr:
		if gf := c.callee(x); gf != nil {
			if len(gf.results) == 1 {
				return gf.results[0]
			}
			if len(gf.results) == 0 {
				return "unit"
			}
			return "(" + strings.Join(gf.results, " * ") + ")"
		}
		switch name := callName(x.Fun); name {
		case "len", "int", "int64", "time.Month", "time.Duration":
			return "Z"
		case "time.Unix":
			return "gtime"
		case "newCSMFromFields":
			if c.t.loc {
				return "csmh"
			}
		case "make":
			return c.t.gtype(c.fn.file, x.Args[0])
		case "append":
			return c.typeOf(x.Args[0])
		case "time.Date":
			if c.t.loc {
				return "gtime"
			}
			return "gotime"
		}
		if se, ok := x.Fun.(*ast.SelectorExpr); ok {
			switch c.typeOf(se.X) {
			case "csmh":
				if r, ok := csmhMethods[se.Sel.Name]; ok {
					return "(" + strings.Join(r, " * ") + ")"
				}
			case "gtime":
				if r, ok := gtimeMethods[se.Sel.Name]; ok {
					if len(r) == 1 {
						return r[0]
					}
					return "(" + strings.Join(r, " * ") + ")"
				}
			case "gotime":
				if se.Sel.Name == "AddDate" {
					return "gotime"
				}
				return "Z"
			case "Z":
				if se.Sel.Name == "Value" || (c.t.loc && se.Sel.Name == "Nanoseconds") {
					return "Z"
				}
			}
		}
	}
	die("%s: cannot type the expression at %s", c.fn.file.path, c.pos(e))
	return ""
}

// methods of a located time.Time (GoTimeLoc.v) and their result types
var csmhMethods = map[string][]string{"NextTriggerTime": {"gtime", "bool"}}

var gtimeMethods = map[string][]string{
	"In": {"gtime"}, "UnixNano": {"Z"},
	"Date": {"Z", "Z", "Z"}, "Clock": {"Z", "Z", "Z"}, "Zone": {"unit", "Z"}, "ZoneBounds": {"gtime", "gtime"},
	"IsZero": {"bool"}, "Add": {"gtime"}, "After": {"bool"}, "Before": {"bool"},
}

// hasEffects: does evaluating e call a method that assigns to its receiver?
func (c *fnCtx) hasEffects(e ast.Expr) bool {
	eff := false
	ast.Inspect(e, func(n ast.Node) bool {
		if call, ok := n.(*ast.CallExpr); ok {
			if gf := c.callee(call); gf != nil && gf.mutates {
				eff = true
			}
		}
		return true
	})
	return eff
}

func (c *fnCtx) exprs(es []ast.Expr, k func([]string) string) string {
	var vals []string
	var step func(i int) string
	step = func(i int) string {
		if i == len(es) {
			return k(vals)
		}
		later := false
		for _, e := range es[i+1:] {
			if c.hasEffects(e) {
				later = true
			}
		}
		return c.expr(es[i], func(v string) string {
			if later && !isAtomText(v) {
				tn := c.fresh("a")
				vals = append(vals, tn)
				return fmt.Sprintf("let %s := %s in %s", tn, v, step(i+1))
			}
			vals = append(vals, v)
			return step(i + 1)
		})
	}
	return step(0)
}

func isAtomText(v string) bool {
	for _, r := range v {
		if !(r == '_' || r >= '0' && r <= '9' || r >= 'a' && r <= 'z' || r >= 'A' && r <= 'Z') {
			return false
		}
	}
	return true
}

func (c *fnCtx) expr(e ast.Expr, k func(string) string) string {
	switch x := e.(type) {
	case *ast.ParenExpr:
		return c.expr(x.X, k)
	case *ast.BasicLit:
		if x.Kind == token.INT {
			return k(coqZ(c.fn.file.intOf(x)))
		}
	case *ast.Ident:
		if x.Name == "true" || x.Name == "false" {
			return k(x.Name)
		}
		if _, ok := c.env[x.Name]; ok {
			return k(x.Name)
		}
		if _, ok := c.t.consts[x.Name]; ok {
			return k("c_" + x.Name)
		}
		if c.t.loc {
			switch x.Name {
			case "nil":
				return k("0") // the nil error
			case "maxTime":
				return k("time_maxTime")
			}
		}
		die("%s: unknown identifier %s at %s", c.fn.file.path, x.Name, c.pos(x))
	case *ast.SelectorExpr:
		if id, ok := x.X.(*ast.Ident); ok && id.Name == "time" {
			switch x.Sel.Name {
			case "Saturday", "Sunday":
				return k("time_" + x.Sel.Name)
			case "Second":
				if c.t.loc {
					return k("1") // durations are counted in seconds (every Add argument is a multiple of time.Second: checked)
				}
			case "UTC":
				if c.t.loc {
					return k("utc_zone")
				}
			}
			die("%s: unsupported time constant %s", c.fn.file.path, x.Sel.Name)
		}
		root, path, ok := rootIdent(x)
		if ok {
			if _, known := c.env[root]; known {
				return k(c.getPath(root, path))
			}
		}
		die("%s: unsupported selector at %s", c.fn.file.path, c.pos(x))
	case *ast.IndexExpr:
		if c.typeOf(x.X) != "list Z" {
			die("%s: index of a non-slice at %s", c.fn.file.path, c.pos(x))
		}
		return c.exprs([]ast.Expr{x.X, x.Index}, func(v []string) string { return k(fmt.Sprintf("(go_index %s %s)", v[0], v[1])) })
	case *ast.UnaryExpr:
		switch x.Op {
		case token.NOT:
			return c.expr(x.X, func(v string) string { return k(fmt.Sprintf("(negb %s)", v)) })
		case token.SUB:
			return c.expr(x.X, func(v string) string { return k(fmt.Sprintf("(- %s)", v)) })
		case token.AND:
			if _, ok := x.X.(*ast.CompositeLit); ok {
				return c.expr(x.X, k)
			}
		}
	case *ast.CompositeLit:
		sn := c.t.gtype(c.fn.file, x.Type)
		if strings.HasPrefix(sn, "list ") {
			for _, el := range x.Elts {
				if c.typeOf(el) != strings.TrimPrefix(sn, "list ") {
					die("%s: slice literal element of another type at %s", c.fn.file.path, c.pos(el))
				}
			}
			return c.exprs(x.Elts, func(vs []string) string { return k("[" + strings.Join(vs, "; ") + "]") })
		}
		gs, ok := c.t.structs[sn]
		if !ok {
			die("%s: composite literal of a non-struct at %s", c.fn.file.path, c.pos(x))
		}
		var es []ast.Expr
		if len(x.Elts) != len(gs.fields) {
			die("%s: composite literal of %s must name every field (%s)", c.fn.file.path, sn, c.pos(x))
		}
		if _, keyed := x.Elts[0].(*ast.KeyValueExpr); keyed {
			byName := map[string]ast.Expr{}
			for _, el := range x.Elts {
				kv, ok := el.(*ast.KeyValueExpr)
				if !ok {
					die("%s: mixed composite literal at %s", c.fn.file.path, c.pos(x))
				}
				byName[kv.Key.(*ast.Ident).Name] = kv.Value
			}
			for _, f := range gs.fields {
				v, ok := byName[f.name]
				if !ok {
					die("%s: composite literal of %s lacks field %s", c.fn.file.path, sn, f.name)
				}
				es = append(es, v)
			}
		} else {
			es = x.Elts
		}
		for i, el := range es {
			if c.typeOf(el) != gs.fields[i].typ {
				die("%s: field %s.%s initialised with a %s at %s", c.fn.file.path, sn, gs.fields[i].name, c.typeOf(el), c.pos(el))
			}
		}
		return c.exprs(es, func(vs []string) string {
			var as []string
			for i, f := range gs.fields {
				as = append(as, fmt.Sprintf("%s_%s := %s", sn, f.name, vs[i]))
			}
			return k("{| " + strings.Join(as, "; ") + " |}")
		})
	case *ast.BinaryExpr:
		if x.Op == token.LAND || x.Op == token.LOR {
			if c.hasEffects(x.Y) {
				return c.expr(x.X, func(a string) string {
					saved := c.copyEnv()
					var s string
					if x.Op == token.LAND {
						s = fmt.Sprintf("if %s then %s else %s", a, c.expr(x.Y, k), k("false"))
					} else {
						s = fmt.Sprintf("if %s then %s else %s", a, k("true"), c.expr(x.Y, k))
					}
					c.env = saved
					return "(" + s + ")"
				})
			}
			op := "&&"
			if x.Op == token.LOR {
				op = "||"
			}
			return c.exprs([]ast.Expr{x.X, x.Y}, func(v []string) string { return k(fmt.Sprintf("(%s %s %s)", v[0], op, v[1])) })
		}
		tx, ty := c.typeOf(x.X), c.typeOf(x.Y)
		return c.exprs([]ast.Expr{x.X, x.Y}, func(v []string) string {
			a, b := v[0], v[1]
			if tx == "bool" && ty == "bool" {
				switch x.Op {
				case token.EQL:
					return k(fmt.Sprintf("(Bool.eqb %s %s)", a, b))
				case token.NEQ:
					return k(fmt.Sprintf("(negb (Bool.eqb %s %s))", a, b))
				}
			}
			if !(tx == "Z" && ty == "Z") {
				die("%s: binary operator on %s and %s at %s", c.fn.file.path, tx, ty, c.pos(x))
			}
			switch x.Op {
			case token.ADD:
				return k(fmt.Sprintf("(%s + %s)", a, b))
			case token.SUB:
				return k(fmt.Sprintf("(%s - %s)", a, b))
			case token.MUL:
				return k(fmt.Sprintf("(%s * %s)", a, b))
			case token.REM:
				return k(fmt.Sprintf("(Z.rem %s %s)", a, b))
			case token.QUO:
				return k(fmt.Sprintf("(Z.quot %s %s)", a, b))
			case token.AND:
				return k(fmt.Sprintf("(Z.land %s %s)", a, b))
			case token.OR:
				return k(fmt.Sprintf("(Z.lor %s %s)", a, b))
			case token.EQL:
				return k(fmt.Sprintf("(%s =? %s)", a, b))
			case token.NEQ:
				return k(fmt.Sprintf("(negb (%s =? %s))", a, b))
			case token.LSS:
				return k(fmt.Sprintf("(%s <? %s)", a, b))
			case token.LEQ:
				return k(fmt.Sprintf("(%s <=? %s)", a, b))
			case token.GTR:
				return k(fmt.Sprintf("(%s <? %s)", b, a))
			case token.GEQ:
				return k(fmt.Sprintf("(%s <=? %s)", b, a))
			}
			die("%s: unsupported operator %s at %s", c.fn.file.path, x.Op, c.pos(x))
			return ""
		})
	case *ast.CallExpr:
		return c.call(x, k)
	}
	die("%s: unsupported expression at %s", c.fn.file.path, c.pos(e))
	return ""
}

func (c *fnCtx) call(x *ast.CallExpr, k func(string) string) string {
	name := callName(x.Fun)
	switch name {
	case "len":
		if len(x.Args) != 1 || c.typeOf(x.Args[0]) != "list Z" {
			die("%s: len of a non-slice at %s", c.fn.file.path, c.pos(x))
		}
		return c.expr(x.Args[0], func(v string) string { return k(fmt.Sprintf("(Z.of_nat (length %s))", v)) })
	case "int64":
		if len(x.Args) == 1 && callName(x.Args[0]) == "time.Second" {
			return k("1000000000") // int64(time.Second): nanoseconds
		}
		if len(x.Args) != 1 || c.typeOf(x.Args[0]) != "Z" {
			die("%s: conversion of a non-integer at %s", c.fn.file.path, c.pos(x))
		}
		return c.expr(x.Args[0], k)
	case "time.Unix":
		if len(x.Args) != 2 || c.fn.file.intOf(x.Args[1]) != 0 || c.typeOf(x.Args[0]) != "Z" {
			die("%s: only time.Unix(sec, 0) is supported (%s)", c.fn.file.path, c.pos(x))
		}
		return c.expr(x.Args[0], func(v string) string { return k(fmt.Sprintf("(time_Unix %s)", v)) })
	case "newCSMFromFields":
		if !c.t.loc || len(x.Args) != 2 || c.typeOf(x.Args[0]) != "gtime" || c.typeOf(x.Args[1]) != "fields" {
			die("%s: unexpected call of newCSMFromFields at %s", c.fn.file.path, c.pos(x))
		}
		// the state machine of internal/csm is an external function here (CronExt.v: the model's wall_next)
		return c.exprs(x.Args, func(v []string) string { return k(fmt.Sprintf("(ext_newCSMFromFields %s %s)", v[0], v[1])) })
	case "int", "time.Month":
		if len(x.Args) != 1 || c.typeOf(x.Args[0]) != "Z" {
			die("%s: conversion of a non-integer at %s", c.fn.file.path, c.pos(x))
		}
		return c.expr(x.Args[0], k)
	case "make":
		if len(x.Args) != 2 || c.t.gtype(c.fn.file, x.Args[0]) != "list Z" || c.fn.file.intOf(x.Args[1]) != 0 {
			die("%s: only make([]int, 0) is supported (%s)", c.fn.file.path, c.pos(x))
		}
		return k("(@nil Z)")
	case "append":
		if len(x.Args) < 2 || !strings.HasPrefix(c.typeOf(x.Args[0]), "list ") {
			die("%s: unsupported append at %s", c.fn.file.path, c.pos(x))
		}
		for _, a := range x.Args[1:] {
			if "list "+c.typeOf(a) != c.typeOf(x.Args[0]) {
				die("%s: append of another element type at %s", c.fn.file.path, c.pos(x))
			}
		}
		return c.exprs(x.Args, func(v []string) string { return k(fmt.Sprintf("(%s ++ [%s])", v[0], strings.Join(v[1:], "; "))) })
	case "time.Duration":
		if len(x.Args) != 1 || c.typeOf(x.Args[0]) != "Z" {
			die("%s: conversion of a non-integer at %s", c.fn.file.path, c.pos(x))
		}
		return c.expr(x.Args[0], k)
	case "time.Date":
		if len(x.Args) != 8 {
			die("%s: time.Date arity", c.fn.file.path)
		}
		if c.t.loc {
			if c.fn.file.intOf(x.Args[6]) != 0 || c.typeOf(x.Args[7]) != "zone" {
				die("%s: time.Date with nanoseconds or without a location at %s", c.fn.file.path, c.pos(x))
			}
			return c.exprs(append(append([]ast.Expr{}, x.Args[:6]...), x.Args[7]), func(v []string) string {
				return k(fmt.Sprintf("(time_DateL %s)", strings.Join(v, " ")))
			})
		}
		for _, a := range x.Args[3:7] {
			if c.fn.file.intOf(a) != 0 {
				die("%s: time.Date with a non-zero clock at %s", c.fn.file.path, c.pos(x))
			}
		}
		if callName(x.Args[7]) != "time.UTC" {
			die("%s: time.Date outside UTC at %s", c.fn.file.path, c.pos(x))
		}
		return c.exprs(x.Args[:3], func(v []string) string { return k(fmt.Sprintf("(time_Date %s %s %s)", v[0], v[1], v[2])) })
	}
	if gf := c.callee(x); gf != nil {
		if len(x.Args) != len(gf.params) {
			die("%s: call arity of %s at %s", c.fn.file.path, gf.goName, c.pos(x))
		}
		for i, a := range x.Args {
			if c.typeOf(a) != gf.params[i].typ {
				die("%s: argument %d of %s has type %s at %s", c.fn.file.path, i, gf.goName, c.typeOf(a), c.pos(x))
			}
		}
		if gf.recv == "" {
			return c.exprs(x.Args, func(v []string) string {
				return k(strings.TrimSpace(fmt.Sprintf("(%s %s)", gf.coqName, strings.Join(v, " "))))
			})
		}
		se := x.Fun.(*ast.SelectorExpr)
		if !gf.mutates {
			return c.exprs(append([]ast.Expr{se.X}, x.Args...), func(v []string) string {
				return k(fmt.Sprintf("(%s %s)", gf.coqName, strings.Join(v, " ")))
			})
		}
		root, path, ok := rootIdent(se.X)
		if !ok {
			die("%s: mutating method called on a non-variable at %s", c.fn.file.path, c.pos(x))
		}
		if _, known := c.env[root]; !known {
			die("%s: mutating method called on unknown variable %s", c.fn.file.path, root)
		}
		return c.exprs(x.Args, func(v []string) string {
			r := c.fresh("s")
			callTxt := strings.TrimSpace(fmt.Sprintf("%s %s %s", gf.coqName, c.getPath(root, path), strings.Join(v, " ")))
			upd := fmt.Sprintf("let %s := %s in\n  ", root, c.setPath(root, path, r))
			switch len(gf.results) {
			case 0:
				return fmt.Sprintf("let %s := %s in\n  %s%s", r, callTxt, upd, k("tt"))
			case 1:
				tv := c.fresh("v")
				return fmt.Sprintf("let '(%s, %s) := %s in\n  %s%s", r, tv, callTxt, upd, k(tv))
			case 2:
				t1, t2 := c.fresh("v"), c.fresh("v")
				return fmt.Sprintf("let '(%s, %s, %s) := %s in\n  %s%s", r, t1, t2, callTxt, upd, k(fmt.Sprintf("(%s, %s)", t1, t2)))
			}
			die("%s: too many results of %s", c.fn.file.path, gf.goName)
			return ""
		})
	}
	if se, ok := x.Fun.(*ast.SelectorExpr); ok {
		switch c.typeOf(se.X) {
		case "csmh":
			if se.Sel.Name != "NextTriggerTime" || len(x.Args) != 1 || c.typeOf(x.Args[0]) != "zone" {
				die("%s: unsupported use of the state machine at %s", c.fn.file.path, c.pos(x))
			}
			return c.exprs([]ast.Expr{se.X, x.Args[0]}, func(v []string) string {
				return k(fmt.Sprintf("(ext_NextTriggerTime %s %s)", v[0], v[1]))
			})
		case "gtime":
			r, ok := gtimeMethods[se.Sel.Name]
			if !ok {
				die("%s: unsupported time.Time method %s at %s", c.fn.file.path, se.Sel.Name, c.pos(x))
			}
			want := map[string][]string{"Add": {"Z"}, "After": {"gtime"}, "Before": {"gtime"}, "In": {"zone"}}[se.Sel.Name]
			if len(x.Args) != len(want) {
				die("%s: arity of %s at %s", c.fn.file.path, se.Sel.Name, c.pos(x))
			}
			for i, a := range x.Args {
				if c.typeOf(a) != want[i] {
					die("%s: argument of %s at %s", c.fn.file.path, se.Sel.Name, c.pos(x))
				}
			}
			if se.Sel.Name == "Add" {
				// durations are counted in seconds: the argument must be a multiple of time.Second
				sec := false
				ast.Inspect(x.Args[0], func(n ast.Node) bool {
					if s2, ok := n.(*ast.SelectorExpr); ok && callName(s2) == "time.Second" {
						sec = true
					}
					return true
				})
				if !sec {
					die("%s: Add of a duration that is not written as a multiple of time.Second at %s", c.fn.file.path, c.pos(x))
				}
			}
			_ = r
			fn := map[string]string{"Date": "time_DateOf", "Clock": "time_ClockOf", "Zone": "time_Zone", "ZoneBounds": "time_ZoneBounds",
				"IsZero": "time_IsZero", "Add": "time_AddSec", "After": "time_After", "Before": "time_Before", "In": "time_In", "UnixNano": "time_UnixNano"}[se.Sel.Name]
			return c.exprs(append([]ast.Expr{se.X}, x.Args...), func(v []string) string {
				return k(fmt.Sprintf("(%s %s)", fn, strings.Join(v, " ")))
			})
		case "gotime":
			switch se.Sel.Name {
			case "Day", "Month", "Weekday", "Year":
				if len(x.Args) != 0 {
					die("%s: arity at %s", c.fn.file.path, c.pos(x))
				}
				return c.expr(se.X, func(v string) string { return k(fmt.Sprintf("(time_%s %s)", se.Sel.Name, v)) })
			case "AddDate":
				if len(x.Args) != 3 {
					die("%s: arity at %s", c.fn.file.path, c.pos(x))
				}
				return c.exprs(append([]ast.Expr{se.X}, x.Args...), func(v []string) string {
					return k(fmt.Sprintf("(time_AddDate %s %s %s %s)", v[0], v[1], v[2], v[3]))
				})
			}
		case "Z":
			if c.t.loc && se.Sel.Name == "Nanoseconds" && len(x.Args) == 0 {
				return c.expr(se.X, k) // a time.Duration counts nanoseconds
			}
			if se.Sel.Name == "Value" && len(x.Args) == 0 {
				// Value() of an interface-typed node held in a field: the field is its current value
				if root, path, ok := rootIdent(se.X); ok && len(path) > 0 {
					if _, known := c.env[root]; known {
						return k(c.getPath(root, path))
					}
				}
			}
		}
	}
	die("%s: unsupported call %s at %s", c.fn.file.path, name, c.pos(x))
	return ""
}


// Section "cronsrc": quartz/cron.go's firstAfter (the mapping of a wall clock reading back to instants of a
// location with transitions), translated with located time values (GoTimeLoc.v).
func init() { sections["cronsrc"] = genCronSrc }

func genCronSrc(o *out) {
	t := &csmTr{structs: map[string]*gstruct{}, funcs: map[string]*gfunc{}, consts: map[string]int64{}, loc: true}
	f := parse("quartz/cron.go")
	// the receiver of NextFireTime: only the fields the translated code may read (any other field fails closed)
	t.structs["CronTrigger"] = &gstruct{name: "CronTrigger", fields: []gfield{{"fields", "fields"}, {"location", "zone"}}}
	t.consts["ErrTriggerExpired"] = 1
	// maxTime must be time.Unix(0, 1<<63-1) (GoTimeLoc.time_maxTime)
	if mt, ok := f.valueExpr("maxTime").(*ast.CallExpr); !ok || callName(mt.Fun) != "time.Unix" || len(mt.Args) != 2 ||
		f.intOf(mt.Args[0]) != 0 || evalBig(f, mt.Args[1]) != 1<<63-1 {
		die("quartz/cron.go: maxTime is not time.Unix(0, 1<<63-1)")
	}
	add := func(recv, name string) {
		fd := f.method(recv, name)
		gf := &gfunc{decl: fd, file: f, goName: name, coqName: "g_" + name}
		if recv != "" {
			gf.recv = fd.Recv.List[0].Names[0].Name
			gf.recvType = recv
			gf.goName = recv + "." + name
		}
		for _, p := range fd.Type.Params.List {
			for _, n := range p.Names {
				gf.params = append(gf.params, gfield{n.Name, t.gtype(f, p.Type)})
			}
		}
		for _, r := range fd.Type.Results.List {
			k := len(r.Names)
			if k == 0 {
				k = 1
			}
			for i := 0; i < k; i++ {
				gf.results = append(gf.results, t.gtype(f, r.Type))
			}
		}
		t.funcs[gf.goName] = gf
	}
	add("", "firstAfter")
	add("CronTrigger", "NextFireTime")
	o.line("(* Source-to-Gallina translation of quartz/cron.go's firstAfter and CronTrigger.NextFireTime (see harness/cmd/genparams/csmsrc.go). *)")
	o.line("From Coq Require Import ZArith List Bool.")
	o.line("Require Import QzBase.Calendar QzBase.Fields QzCron.NextFire QzCron.GoTimeLoc QzCron.CronExt.")
	o.line("Import ListNotations.")
	o.line("Open Scope Z_scope.")
	o.line("")
	o.line("Definition c_ErrTriggerExpired : Z := 1.")
	o.line("Record CronTrigger := { CronTrigger_fields : fields; CronTrigger_location : zone }.")
	o.line("")
	t.texts = map[string]string{}
	t.state = map[string]int{}
	for _, name := range []string{"firstAfter", "CronTrigger.NextFireTime"} {
		t.require(t.funcs[name])
	}
	for _, n := range t.order {
		o.line("%s", t.texts[n])
	}
}

// Gallina keywords and notations that a Go local variable may be called: such variables get a trailing underscore.
var coqReserved = map[string]bool{"end": true, "at": true, "as": true, "in": true, "fix": true, "cofix": true, "match": true, "with": true,
	"let": true, "fun": true, "if": true, "then": true, "else": true, "return": true, "forall": true, "exists": true, "where": true,
	"using": true, "for": true, "mod": true, "Type": true, "Set": true, "Prop": true, "struct": true, "fst": true, "snd": true,
	"cons": true, "length": true, "nth": true, "hd": true, "tt": true, "negb": true, "andb": true, "orb": true}

func renameReserved(fd *ast.FuncDecl) {
	sel := map[*ast.Ident]bool{}
	ast.Inspect(fd, func(n ast.Node) bool {
		if se, ok := n.(*ast.SelectorExpr); ok {
			sel[se.Sel] = true
		}
		if kv, ok := n.(*ast.KeyValueExpr); ok {
			if id, ok := kv.Key.(*ast.Ident); ok {
				sel[id] = true
			}
		}
		return true
	})
	ast.Inspect(fd.Body, func(n ast.Node) bool {
		if id, ok := n.(*ast.Ident); ok && !sel[id] && coqReserved[id.Name] {
			id.Name += "_"
		}
		return true
	})
	for _, p := range fd.Type.Params.List {
		for _, n := range p.Names {
			if coqReserved[n.Name] {
				n.Name += "_"
			}
		}
	}
}


// Section "trigsrc": quartz/trigger.go's SimpleTrigger.NextFireTime and RunOnceTrigger.NextFireTime
// (coq/sched/theories/Gen/TrigSrc.v; TrigTie.v proves them equal to the model's executable trigger instances).
func init() { sections["trigsrc"] = genTrigSrc }

func genTrigSrc(o *out) {
	t := &csmTr{structs: map[string]*gstruct{}, funcs: map[string]*gfunc{}, consts: map[string]int64{}, loc: true}
	f := parse("quartz/trigger.go")
	t.consts["ErrTriggerExpired"] = 1
	var structOrder []string
	for _, name := range []string{"SimpleTrigger", "RunOnceTrigger"} {
		var st *ast.StructType
		for _, d := range f.f.Decls {
			g, ok := d.(*ast.GenDecl)
			if !ok || g.Tok != token.TYPE {
				continue
			}
			for _, sp := range g.Specs {
				ts := sp.(*ast.TypeSpec)
				if ts.Name.Name == name {
					st, _ = ts.Type.(*ast.StructType)
				}
			}
		}
		if st == nil {
			die("quartz/trigger.go: struct %s not found", name)
		}
		gs := &gstruct{name: name}
		for _, fl := range st.Fields.List {
			for _, n := range fl.Names {
				gs.fields = append(gs.fields, gfield{n.Name, t.gtype(f, fl.Type)})
			}
		}
		t.structs[name] = gs
		structOrder = append(structOrder, name)
	}
	for _, recv := range structOrder {
		fd := f.method(recv, "NextFireTime")
		gf := &gfunc{decl: fd, file: f, goName: recv + ".NextFireTime", coqName: "g_" + recv + "_NextFireTime",
			recv: fd.Recv.List[0].Names[0].Name, recvType: recv}
		for _, p := range fd.Type.Params.List {
			for _, n := range p.Names {
				gf.params = append(gf.params, gfield{n.Name, t.gtype(f, p.Type)})
			}
		}
		for _, r := range fd.Type.Results.List {
			gf.results = append(gf.results, t.gtype(f, r.Type))
		}
		t.funcs[gf.goName] = gf
	}
	for changed := true; changed; {
		changed = false
		for _, gf := range t.funcs {
			if !gf.mutates && t.bodyMutates(gf) {
				gf.mutates = true
				changed = true
			}
		}
	}
	o.line("(* Source-to-Gallina translation of quartz/trigger.go's SimpleTrigger and RunOnceTrigger (see harness/cmd/genparams/csmsrc.go). *)")
	o.line("(* int64 is rendered as unbounded Z (prev + interval does not wrap here); error: 0 = nil, 1 = ErrTriggerExpired. *)")
	o.line("From Coq Require Import ZArith List Bool.")
	o.line("Import ListNotations.")
	o.line("Open Scope Z_scope.")
	o.line("")
	o.line("Definition c_ErrTriggerExpired : Z := 1.")
	for _, sn := range structOrder {
		gs := t.structs[sn]
		var fs []string
		for _, fl := range gs.fields {
			fs = append(fs, fmt.Sprintf("%s_%s : %s", sn, fl.name, coqType(fl.typ)))
		}
		o.line("Record %s := { %s }.", sn, strings.Join(fs, "; "))
		for _, fl := range gs.fields {
			var as []string
			for _, f2 := range gs.fields {
				if f2.name == fl.name {
					as = append(as, fmt.Sprintf("%s_%s := v__", sn, f2.name))
				} else {
					as = append(as, fmt.Sprintf("%s_%s := %s_%s s__", sn, f2.name, sn, f2.name))
				}
			}
			o.line("Definition set_%s_%s (s__ : %s) (v__ : %s) : %s := {| %s |}.", sn, fl.name, sn, coqType(fl.typ), sn, strings.Join(as, "; "))
		}
	}
	o.line("")
	t.texts = map[string]string{}
	t.state = map[string]int{}
	for _, recv := range structOrder {
		t.require(t.funcs[recv+".NextFireTime"])
	}
	for _, n := range t.order {
		o.line("%s", t.texts[n])
	}
}
