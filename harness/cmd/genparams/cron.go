package main

import (
	"go/ast"
)

// Section "cron": node bounds of newCSMFromFields (quartz/csm.go), the n markers of
// internal/csm/day_node.go, the int64 limit used by quartz/cron.go.
func init() { sections["cron"] = genCron }

func genCron(o *out) {
	cs := parse("quartz/csm.go")
	dn := parse("internal/csm/day_node.go")
	o.line("From Coq Require Import ZArith.")
	o.line("Open Scope Z_scope.")
	o.line("")
	fd := cs.method("", "newCSMFromFields")
	// every CSM.NewCommonNode(value, lo, hi, values) / CSM.New*DayNode(value, lo, hi, n, values, month, year) call
	type bound struct{ lo, hi int64 }
	got := map[string]bound{}
	var dayBounds []bound
	ast.Inspect(fd.Body, func(n ast.Node) bool {
		as, ok := n.(*ast.AssignStmt)
		if !ok || len(as.Lhs) != 1 || len(as.Rhs) != 1 {
			return true
		}
		call, ok := as.Rhs[0].(*ast.CallExpr)
		if !ok {
			return true
		}
		name := callName(as.Lhs[0])
		switch callName(call.Fun) {
		case "CSM.NewCommonNode":
			if len(call.Args) != 4 {
				die("newCSMFromFields: NewCommonNode arity")
			}
			got[name] = bound{cs.intOf(call.Args[1]), cs.intOf(call.Args[2])}
		case "CSM.NewWeekDayNode", "CSM.NewMonthDayNode":
			if len(call.Args) != 7 {
				die("newCSMFromFields: day node arity")
			}
			dayBounds = append(dayBounds, bound{cs.intOf(call.Args[1]), cs.intOf(call.Args[2])})
		}
		return true
	})
	// roles come from the argument order of CSM.NewCronStateMachine(second, minute, hour, day, month, year),
	// not from the variable names
	var roles []string
	ast.Inspect(fd.Body, func(n ast.Node) bool {
		if c, ok := n.(*ast.CallExpr); ok && callName(c.Fun) == "CSM.NewCronStateMachine" && len(c.Args) == 6 {
			for _, a := range c.Args {
				roles = append(roles, callName(a))
			}
		}
		return true
	})
	if len(roles) != 6 {
		die("newCSMFromFields: CSM.NewCronStateMachine(second, minute, hour, day, month, year) not found")
	}
	for i, role := range []string{"second", "minute", "hour", "", "month", "year"} {
		if role == "" {
			continue
		}
		b, ok := got[roles[i]]
		if !ok {
			die("newCSMFromFields: the %s node (%s) is not built by CSM.NewCommonNode", role, roles[i])
		}
		got[role] = b
	}
	if len(dayBounds) != 2 || dayBounds[0] != dayBounds[1] {
		die("newCSMFromFields: expected two day node constructors with equal bounds")
	}
	emit := func(coq string, b bound) {
		o.line("Definition %s_lo : Z := %s.", coq, coqZ(b.lo))
		o.line("Definition %s_hi : Z := %s.", coq, coqZ(b.hi))
	}
	emit("sec", got["second"])
	emit("min", got["minute"])
	emit("hour", got["hour"])
	emit("day", dayBounds[0])
	emit("mon", got["month"])
	emit("year", got["year"])
	o.line("Definition n_last_day_of_month : Z := %s.", coqZ(dn.intConst("NLastDayOfMonth")))
	o.line("Definition n_weekday : Z := %s.", coqZ(dn.intConst("NWeekday")))
	// maxTime = time.Unix(0, 1<<63-1)
	cr := parse("quartz/cron.go")
	mt, ok := cr.valueExpr("maxTime").(*ast.CallExpr)
	if !ok || callName(mt.Fun) != "time.Unix" || len(mt.Args) != 2 || cr.intOf(mt.Args[0]) != 0 {
		die("quartz/cron.go: maxTime is not time.Unix(0, N)")
	}
	o.line("Definition max_int64 : Z := %d.", evalBig(cr, mt.Args[1]))
}

// evalBig evaluates 1<<63-1 style expressions without overflowing int64.
func evalBig(f *file, e ast.Expr) uint64 {
	be, ok := unparen(e).(*ast.BinaryExpr)
	if ok && be.Op.String() == "-" {
		if sh, ok := unparen(be.X).(*ast.BinaryExpr); ok && sh.Op.String() == "<<" {
			return (uint64(f.intOf(sh.X)) << uint(f.intOf(sh.Y))) - uint64(f.intOf(be.Y))
		}
	}
	return uint64(f.intOf(e))
}
