// loopprobe2: exploratory probe (not used by any check).  Wait(ctx) leaves a goroutine blocked in
// sched.wg.Wait() when ctx expires first; if the scheduler is then stopped and started again, wg.Add(1)
// in Start can race with that goroutine's wake-up and the Go runtime panics:
// "sync: WaitGroup is reused before previous Wait has returned".  Usage: loopprobe2 <rounds>
package main

import (
	"context"
	"fmt"
	"os"
	"strconv"
	"time"

	"github.com/reugn/go-quartz/quartz"
)

func main() {
	rounds := 2000
	if len(os.Args) > 1 {
		rounds, _ = strconv.Atoi(os.Args[1])
	}
	s, _ := quartz.NewStdScheduler()
	for i := 0; i < rounds; i++ {
		s.Start(context.Background())
		ctx, c := context.WithTimeout(context.Background(), 200*time.Microsecond)
		s.Wait(ctx) // expires: the scheduler is running
		c()
		s.Stop()
		if i%2 == 0 {
			time.Sleep(time.Duration(i%7) * 20 * time.Microsecond)
		}
	}
	s.Stop()
	fmt.Println("no panic in", rounds, "rounds")
}
