// queueh: correspondence harness for the default job queue (C11).
//
//	queueh random SEED NSEQ MAXLEN OUT   random call sequences against quartz.NewJobQueue()
//	queueh exhaust DEPTH NKEYS OUT       every call sequence of length DEPTH over NKEYS keys x 3 priorities
//	queueh matrix OUT                    all single matchers and all pairs (and some triples) on a fixed queue
//	queueh replay IN OUT                 re-run the calls of recorded Q lines
//	queueh conc SEED ROUNDS              16 concurrent callers (build with -race); one JSON line with violations
//
// random/exhaust/matrix write one line per sequence to OUT:
//
//	T K <hex group> <hex name>           key table (index = order of appearance)
//	T X <hex pattern>                    pattern table
//	Q <id> <call> > <result> ; <call> > <result> ; ...
//
// calls:   P<h|s> k prio susp repl id   Push of a new entry (h: minted with VerifNewScheduledJob, s: through
//
//	                                     ScheduleJob on a never-started scheduler sharing the queue)
//	        O Pop | H Head | G k Get | R k Remove | Z Size | C Clear | A ScheduledJobs(nil)
//	        L m,m,.. ScheduledJobs(matchers) | J m,..|- GetJobKeys(matchers...) through the scheduler
//	matchers: N<op>.<pattern index> name, G<op>.<pattern index> group (op 0 equals 1 starts 2 ends 3 contains),
//	        T0 active, T1 paused
//
// results: ok | Eempty | Enotfound | Eexists | Eother | #id | [id,id,..] | =n | {k,k,..} | PANIC
//
//	an id is followed by ! when the returned object's JobKey/NextRunTime/Suspended differ from what was minted,
//	and is ? when the returned object was never minted by the harness.
package main

import (
	"bufio"
	"context"
	"encoding/hex"
	"encoding/json"
	"errors"
	"fmt"
	"math"
	"math/rand"
	"os"
	"sort"
	"strconv"
	"strings"
	"sync"
	"sync/atomic"

	"github.com/reugn/go-quartz/logger"
	"github.com/reugn/go-quartz/matcher"
	"github.com/reugn/go-quartz/quartz"
)

type keyT struct{ group, name string }

var keys = []keyT{
	{"ab", "abc"}, {"ab", "bca"}, {"abab", "abc"}, {"abab", "ab"}, {"ab", "cab"}, {"abab", ""}, {"ab", "\xc3\xa9b"},
}

// thirteen more plain keys in two groups, so that push-heavy sequences build heaps four levels deep
func init() {
	for i := 0; i < 13; i++ {
		keys = append(keys, keyT{[]string{"grp1", "grp2"}[i%2], "job" + strconv.Itoa(i)})
	}
	// two keys of the default group: the harness spells them in three ways (see jobKey)
	keys = append(keys, keyT{quartz.DefaultGroup, "abc"}, keyT{quartz.DefaultGroup, "dj"})
}

const specialKeys = 7

var patterns = []string{"", "a", "ab", "abc", "bc", "b", "c", "ca", "abab", "x", "abcd", "\xc3\xa9", "ba", "grp", "job1", "2"}

var prios = []int64{1, 2, 2, 3, 3, 0, -5, math.MaxInt64, math.MaxInt64 - 1, math.MinInt64, 1 << 40}

type noopJob struct{}

func (noopJob) Execute(context.Context) error { return nil }
func (noopJob) Description() string           { return "noop" }

// fixedTrigger returns a scripted fire time.
type fixedTrigger struct{ v int64 }

func (t fixedTrigger) NextFireTime(int64) (int64, error) { return t.v, nil }
func (t fixedTrigger) Description() string               { return "fixed" }

type minted struct {
	id   int
	key  int
	prio int64
	susp bool
}

type world struct {
	q     quartz.JobQueue
	sched quartz.Scheduler
	byJD  map[*quartz.JobDetail]*minted
	// entry objects by id: a Push call that names an id used before pushes the SAME object again
	// (the object a Pop/Remove/Get handed out, or one still inside the queue)
	byID map[int]quartz.ScheduledJob
	// share: after every call the queue's entry objects are also pushed into a second default queue
	// (legal: ScheduledJobs hands out the stored objects), which must not disturb the first one
	share bool
}

func newWorld() *world {
	spelling = 0
	q := quartz.NewJobQueue()
	s, err := quartz.NewStdScheduler(quartz.WithQueue(q, &sync.Mutex{}), quartz.WithLogger(logger.NoOpLogger{}))
	if err != nil {
		panic(err)
	}
	return &world{q: q, sched: s, byJD: map[*quartz.JobDetail]*minted{}, byID: map[int]quartz.ScheduledJob{}}
}

func errClass(err error) string {
	switch {
	case err == nil:
		return "ok"
	case errors.Is(err, quartz.ErrQueueEmpty):
		return "Eempty"
	case errors.Is(err, quartz.ErrJobNotFound):
		return "Enotfound"
	case errors.Is(err, quartz.ErrJobAlreadyExists):
		return "Eexists"
	}
	return "Eother"
}

func (w *world) ident(sj quartz.ScheduledJob) string {
	if sj == nil || sj.JobDetail() == nil {
		return "?"
	}
	m, ok := w.byJD[sj.JobDetail()]
	if !ok {
		return "?"
	}
	s := strconv.Itoa(m.id)
	k := sj.JobDetail().JobKey()
	if k == nil || k.Name() != keys[m.key].name || k.Group() != keys[m.key].group ||
		sj.NextRunTime() != m.prio || sj.JobDetail().Options().Suspended != m.susp {
		s += "!"
	}
	return s
}

func (w *world) identList(l []quartz.ScheduledJob) string {
	p := make([]string, len(l))
	for i, sj := range l {
		p[i] = w.ident(sj)
	}
	return "[" + strings.Join(p, ",") + "]"
}

func keyIndex(k *quartz.JobKey) string {
	if k == nil {
		return "?"
	}
	for i, kt := range keys {
		if kt.name == k.Name() && kt.group == k.Group() {
			return strconv.Itoa(i)
		}
	}
	return "?"
}

// spelling counts the keys built in the current world: a key of the default group is built, in turn, by
// NewJobKey(name), NewJobKeyWithGroup(name, "") and NewJobKeyWithGroup(name, DefaultGroup) -- one and the same key
var spelling int

func jobKey(i int) *quartz.JobKey {
	if keys[i].group == quartz.DefaultGroup {
		spelling++
		switch spelling % 3 {
		case 0:
			return quartz.NewJobKey(keys[i].name)
		case 1:
			return quartz.NewJobKeyWithGroup(keys[i].name, "")
		}
	}
	return quartz.NewJobKeyWithGroup(keys[i].name, keys[i].group)
}

type mspec struct {
	kind byte // 'N', 'G', 'T'
	op   int
	pat  int
}

func (m mspec) String() string {
	if m.kind == 'T' {
		return fmt.Sprintf("T%d", m.op)
	}
	return fmt.Sprintf("%c%d.%d", m.kind, m.op, m.pat)
}

func (m mspec) build() quartz.Matcher[quartz.ScheduledJob] {
	switch m.kind {
	case 'T':
		if m.op == 1 {
			return matcher.JobPaused()
		}
		return matcher.JobActive()
	case 'N':
		p := patterns[m.pat]
		switch m.op {
		case 0:
			return matcher.JobNameEquals(p)
		case 1:
			return matcher.JobNameStartsWith(p)
		case 2:
			return matcher.JobNameEndsWith(p)
		default:
			return matcher.JobNameContains(p)
		}
	default:
		p := patterns[m.pat]
		switch m.op {
		case 0:
			return matcher.JobGroupEquals(p)
		case 1:
			return matcher.JobGroupStartsWith(p)
		case 2:
			return matcher.JobGroupEndsWith(p)
		default:
			return matcher.JobGroupContains(p)
		}
	}
}

func mlist(ms []mspec) string {
	if len(ms) == 0 {
		return "-"
	}
	p := make([]string, len(ms))
	for i, m := range ms {
		p[i] = m.String()
	}
	return strings.Join(p, ",")
}

func buildAll(ms []mspec) []quartz.Matcher[quartz.ScheduledJob] {
	out := make([]quartz.Matcher[quartz.ScheduledJob], len(ms))
	for i, m := range ms {
		out[i] = m.build()
	}
	return out
}

// call is one queue call; run executes it and returns "<call> > <result>".
type call struct {
	kind byte // P O H G R Z C A L J
	via  byte // h s
	key  int
	prio int64
	susp bool
	repl bool
	id   int
	ms   []mspec
}

func b01(b bool) int {
	if b {
		return 1
	}
	return 0
}

func (w *world) run(c call) (text string) {
	var head string
	defer func() {
		if r := recover(); r != nil {
			text = head + " > PANIC"
		}
	}()
	switch c.kind {
	case 'P':
		via := c.via
		prio := c.prio
		if via == 's' && keys[c.key].name == "" {
			via = 'h' // ScheduleJob rejects empty names before it reaches the queue
		}
		if via == 's' && c.susp {
			prio = math.MaxInt64 // ScheduleJob parks suspended jobs
		}
		head = fmt.Sprintf("P%c %d %d %d %d %d", via, c.key, prio, b01(c.susp), b01(c.repl), c.id)
		if sj, again := w.byID[c.id]; again && via == 'h' {
			return head + " > " + errClass(w.q.Push(sj))
		}
		opts := quartz.NewDefaultJobDetailOptions()
		opts.Replace, opts.Suspended = c.repl, c.susp
		jd := quartz.NewJobDetailWithOptions(noopJob{}, jobKey(c.key), opts)
		w.byJD[jd] = &minted{c.id, c.key, prio, c.susp}
		var err error
		if via == 's' {
			err = w.sched.ScheduleJob(jd, fixedTrigger{c.prio})
		} else {
			sj := quartz.VerifNewScheduledJob(jd, fixedTrigger{c.prio}, prio)
			w.byID[c.id] = sj
			err = w.q.Push(sj)
		}
		return head + " > " + errClass(err)
	case 'O', 'H':
		head = string(c.kind)
		var sj quartz.ScheduledJob
		var err error
		if c.kind == 'O' {
			sj, err = w.q.Pop()
		} else {
			sj, err = w.q.Head()
		}
		if err != nil {
			return head + " > " + errClass(err)
		}
		return head + " > #" + w.ident(sj)
	case 'G', 'R':
		head = fmt.Sprintf("%c %d", c.kind, c.key)
		var sj quartz.ScheduledJob
		var err error
		if c.kind == 'G' {
			sj, err = w.q.Get(jobKey(c.key))
		} else {
			sj, err = w.q.Remove(jobKey(c.key))
		}
		if err != nil {
			return head + " > " + errClass(err)
		}
		return head + " > #" + w.ident(sj)
	case 'Z':
		head = "Z"
		n, err := w.q.Size()
		if err != nil {
			return head + " > " + errClass(err)
		}
		return head + " > =" + strconv.Itoa(n)
	case 'C':
		head = "C"
		return head + " > " + errClass(w.q.Clear())
	case 'A':
		head = "A"
		l, err := w.q.ScheduledJobs(nil)
		if err != nil {
			return head + " > " + errClass(err)
		}
		return head + " > " + w.identList(l)
	case 'L':
		head = "L " + mlist(c.ms)
		l, err := w.q.ScheduledJobs(buildAll(c.ms))
		if err != nil {
			return head + " > " + errClass(err)
		}
		return head + " > " + w.identList(l)
	case 'J':
		head = "J " + mlist(c.ms)
		ks, err := w.sched.GetJobKeys(buildAll(c.ms)...)
		if err != nil {
			return head + " > " + errClass(err)
		}
		p := make([]string, len(ks))
		for i, k := range ks {
			p[i] = keyIndex(k)
		}
		return head + " > {" + strings.Join(p, ",") + "}"
	}
	panic("unknown call")
}

func writeTables(w *bufio.Writer) {
	for _, k := range keys {
		fmt.Fprintf(w, "T K %s- %s-\n", hex.EncodeToString([]byte(k.group)), hex.EncodeToString([]byte(k.name)))
	}
	for _, p := range patterns {
		fmt.Fprintf(w, "T X %s-\n", hex.EncodeToString([]byte(p)))
	}
}

// shareStep pushes the queue's entry objects into a fresh second queue (in reverse order, so that they sit at
// other heap positions there) and pops one of them: nothing of this may show in the first queue.
func (w *world) shareStep() {
	defer func() { _ = recover() }()
	l, err := w.q.ScheduledJobs(nil)
	if err != nil {
		return
	}
	q2 := quartz.NewJobQueue()
	for i := len(l) - 1; i >= 0; i-- {
		_ = q2.Push(l[i])
	}
	_, _ = q2.Pop()
}

func runSeq(out *bufio.Writer, id string, calls []call, snapshot bool) {
	w := newWorld()
	w.share = strings.HasSuffix(id, "x")
	parts := make([]string, 0, 2*len(calls))
	for _, c := range calls {
		r := w.run(c)
		parts = append(parts, r)
		if strings.HasSuffix(r, "PANIC") {
			break
		}
		if w.share {
			w.shareStep()
		}
		if snapshot && c.kind != 'A' {
			r = w.run(call{kind: 'A'})
			parts = append(parts, r)
			if strings.HasSuffix(r, "PANIC") {
				break
			}
		}
	}
	fmt.Fprintf(out, "Q %s %s\n", id, strings.Join(parts, " ; "))
}

func randMatchers(r *rand.Rand) []mspec {
	n := r.Intn(4)
	ms := make([]mspec, 0, n)
	for i := 0; i < n; i++ {
		switch r.Intn(5) {
		case 0:
			ms = append(ms, mspec{kind: 'T', op: r.Intn(2)})
		case 1, 2:
			ms = append(ms, mspec{kind: 'N', op: r.Intn(4), pat: r.Intn(len(patterns))})
		default:
			ms = append(ms, mspec{kind: 'G', op: r.Intn(4), pat: r.Intn(len(patterns))})
		}
	}
	return ms
}

// random sequences: a per-sequence profile decides how full the queue gets (push-heavy sequences reach
// all seven keys, so removals hit the root, middle nodes and the last leaf) and how often Replace is set.
func cmdRandom(seed int64, nseq, maxlen int, path string) {
	f, err := os.Create(path)
	if err != nil {
		panic(err)
	}
	out := bufio.NewWriterSize(f, 1<<20)
	writeTables(out)
	r := rand.New(rand.NewSource(seed))
	nextID := 1
	for s := 0; s < nseq; s++ {
		n := 1 + r.Intn(maxlen)
		pushW := 25 + r.Intn(40)      // % of calls that are pushes
		replW := r.Intn(101)          // % of pushes with Replace
		nk := 2 + r.Intn(len(keys)-1) // keys in use
		if r.Intn(3) == 0 {
			nk = 2 + r.Intn(specialKeys-1)
		}
		np := 1 + r.Intn(len(prios)) // priorities in use (small => many ties)
		useDefault := r.Intn(3) == 0 // every third sequence also uses the two keys of the default group
		pick := func() int {
			if useDefault && r.Intn(3) == 0 {
				return len(keys) - 2 + r.Intn(2)
			}
			return r.Intn(nk)
		}
		calls := make([]call, 0, n)
		if r.Intn(4) == 0 {
			// fill profile: start from a queue holding many keys, then keep it full, so that Remove and
			// replacing Push hit inner nodes of a heap three to four levels deep
			nk = 10 + r.Intn(len(keys)-9)
			pushW = 45 + r.Intn(20)
			for _, k := range r.Perm(nk) {
				calls = append(calls, call{kind: 'P', via: 'h', key: k, prio: prios[r.Intn(np)], susp: r.Intn(4) == 0, id: nextID})
				nextID++
			}
		}
		for i := len(calls); i < n; i++ {
			x := r.Intn(100)
			switch {
			case x < pushW:
				via := byte('h')
				if r.Intn(4) == 0 {
					via = 's'
				}
				if r.Intn(6) == 0 {
					// push an entry object used before in this sequence once more (same id, same fields)
					var earlier []call
					for _, c0 := range calls {
						if c0.kind == 'P' && c0.via == 'h' {
							earlier = append(earlier, c0)
						}
					}
					if len(earlier) > 0 {
						calls = append(calls, earlier[r.Intn(len(earlier))])
						continue
					}
				}
				calls = append(calls, call{kind: 'P', via: via, key: pick(), prio: prios[r.Intn(np)],
					susp: r.Intn(4) == 0, repl: r.Intn(100) < replW, id: nextID})
				nextID++
			default:
				switch y := r.Intn(100); {
				case y < 25:
					calls = append(calls, call{kind: 'O'})
				case y < 33:
					calls = append(calls, call{kind: 'H'})
				case y < 45:
					calls = append(calls, call{kind: 'G', key: pick()})
				case y < 70:
					calls = append(calls, call{kind: 'R', key: pick()})
				case y < 76:
					calls = append(calls, call{kind: 'Z'})
				case y < 78:
					calls = append(calls, call{kind: 'C'})
				case y < 92:
					ms := randMatchers(r)
					if len(ms) == 0 {
						calls = append(calls, call{kind: 'A'})
					} else {
						calls = append(calls, call{kind: 'L', ms: ms})
					}
				default:
					calls = append(calls, call{kind: 'J', ms: randMatchers(r)})
				}
			}
		}
		sid := "r" + strconv.Itoa(s)
		if s%5 == 4 {
			sid += "x" // entry objects shared with a second queue after every call
		}
		runSeq(out, sid, calls, true)
	}
	out.Flush()
	f.Close()
}

// exhaustive sequences of exactly `depth` calls over nkeys keys x 3 priorities (one tie-able pair and MaxInt64)
func cmdExhaust(depth, nkeys int, path string) {
	f, err := os.Create(path)
	if err != nil {
		panic(err)
	}
	out := bufio.NewWriterSize(f, 1<<20)
	writeTables(out)
	ps := []int64{1, 2, math.MaxInt64}
	var alphabet []call
	for k := 0; k < nkeys; k++ {
		for _, p := range ps {
			for _, rp := range []bool{false, true} {
				alphabet = append(alphabet, call{kind: 'P', via: 'h', key: k, prio: p, repl: rp})
			}
		}
	}
	alphabet = append(alphabet, call{kind: 'O'}, call{kind: 'H'}, call{kind: 'Z'}, call{kind: 'C'})
	for k := 0; k < nkeys; k++ {
		alphabet = append(alphabet, call{kind: 'G', key: k}, call{kind: 'R', key: k})
	}
	idx := make([]int, depth)
	calls := make([]call, depth)
	n := 0
	for {
		for i, a := range idx {
			calls[i] = alphabet[a]
			calls[i].id = i + 1
		}
		runSeq(out, "x"+strconv.Itoa(n), calls, true)
		n++
		i := depth - 1
		for i >= 0 {
			idx[i]++
			if idx[i] < len(alphabet) {
				break
			}
			idx[i] = 0
			i--
		}
		if i < 0 {
			break
		}
	}
	out.Flush()
	f.Close()
}

// matcher matrix: a fixed queue holding every key (some paused), all single matchers, all pairs, some triples
func cmdMatrix(path string) {
	f, err := os.Create(path)
	if err != nil {
		panic(err)
	}
	out := bufio.NewWriterSize(f, 1<<20)
	writeTables(out)
	var setup []call
	for k := range keys[:specialKeys+2] {
		setup = append(setup, call{kind: 'P', via: 'h', key: k, prio: prios[(k*3)%len(prios)], susp: k%3 == 1, id: k + 1})
	}
	var all []mspec
	all = append(all, mspec{kind: 'T', op: 0}, mspec{kind: 'T', op: 1})
	for _, kind := range []byte{'N', 'G'} {
		for op := 0; op < 4; op++ {
			for p := range patterns {
				all = append(all, mspec{kind: kind, op: op, pat: p})
			}
		}
	}
	var queries [][]mspec
	queries = append(queries, nil)
	for _, a := range all {
		queries = append(queries, []mspec{a})
	}
	for _, a := range all {
		for _, b := range all {
			queries = append(queries, []mspec{a, b})
		}
	}
	for i, a := range all {
		b, c := all[(i*7+3)%len(all)], all[(i*13+5)%len(all)]
		queries = append(queries, []mspec{a, b, c}, []mspec{c, a, b})
	}
	const per = 150
	for s := 0; s*per < len(queries); s++ {
		calls := append([]call{}, setup...)
		calls = append(calls, call{kind: 'A'})
		end := (s + 1) * per
		if end > len(queries) {
			end = len(queries)
		}
		for _, ms := range queries[s*per : end] {
			if len(ms) > 0 {
				calls = append(calls, call{kind: 'L', ms: ms})
			}
			calls = append(calls, call{kind: 'J', ms: ms})
		}
		runSeq(out, "m"+strconv.Itoa(s), calls, false)
	}
	out.Flush()
	f.Close()
}

// ---- concurrent callers ----

type concResult struct {
	Rounds     int      `json:"rounds"`
	Calls      int64    `json:"calls"`
	Violations []string `json:"violations"`
}

const goroutines = 16

// round A: every goroutine owns one key and runs a scripted life cycle on it, which must behave exactly as
// in a sequential run (nobody else pushes, pops or removes that key); in between it reads shared state.
func roundOwned(r *rand.Rand, res *concResult) {
	q := quartz.NewJobQueue()
	var wg sync.WaitGroup
	var mu sync.Mutex
	var calls int64
	bad := func(format string, a ...any) {
		mu.Lock()
		if len(res.Violations) < 20 {
			res.Violations = append(res.Violations, "owned-keys: "+fmt.Sprintf(format, a...))
		}
		mu.Unlock()
	}
	var all sync.Map // every entry ever minted in this round
	seeds := make([]int64, goroutines)
	for g := range seeds {
		seeds[g] = r.Int63()
	}
	for g := 0; g < goroutines; g++ {
		wg.Add(1)
		go func(g int) {
			defer wg.Done()
			rr := rand.New(rand.NewSource(seeds[g]))
			k := quartz.NewJobKeyWithGroup(fmt.Sprintf("own%d", g), fmt.Sprintf("grp%d", g%2))
			mint := func(prio int64, repl bool) quartz.ScheduledJob {
				opts := quartz.NewDefaultJobDetailOptions()
				opts.Replace = repl
				sj := quartz.VerifNewScheduledJob(quartz.NewJobDetailWithOptions(noopJob{}, k, opts), fixedTrigger{prio}, prio)
				all.Store(sj, true)
				return sj
			}
			read := func() {
				atomic.AddInt64(&calls, 3)
				if h, err := q.Head(); err == nil {
					if _, ok := all.Load(h); !ok {
						bad("Head returned an entry nobody pushed")
					}
				} else if !errors.Is(err, quartz.ErrQueueEmpty) {
					bad("Head: %v", err)
				}
				if n, err := q.Size(); err != nil || n < 0 || n > goroutines {
					bad("Size = %d, %v", n, err)
				}
				l, err := q.ScheduledJobs([]quartz.Matcher[quartz.ScheduledJob]{matcher.JobGroupEquals(fmt.Sprintf("grp%d", g%2))})
				if err != nil {
					bad("ScheduledJobs: %v", err)
				}
				seen := map[string]bool{}
				for _, sj := range l {
					if _, ok := all.Load(sj); !ok {
						bad("ScheduledJobs returned an entry nobody pushed")
					}
					ks := sj.JobDetail().JobKey().String()
					if seen[ks] {
						bad("ScheduledJobs returned key %s twice", ks)
					}
					seen[ks] = true
					if sj.JobDetail().JobKey().Group() != fmt.Sprintf("grp%d", g%2) {
						bad("ScheduledJobs(group=grp%d) returned %s", g%2, ks)
					}
				}
			}
			for it := 0; it < 40; it++ {
				p1, p2 := prios[rr.Intn(5)], prios[rr.Intn(len(prios))]
				e1 := mint(p1, false)
				atomic.AddInt64(&calls, 9)
				if _, err := q.Get(k); !errors.Is(err, quartz.ErrJobNotFound) {
					bad("Get of an absent own key: %v", err)
				}
				if err := q.Push(e1); err != nil {
					bad("Push of an absent own key: %v", err)
				}
				read()
				if got, err := q.Get(k); err != nil || got != e1 {
					bad("Get after Push returned %v, %v", got, err)
				}
				if err := q.Push(mint(p2, false)); !errors.Is(err, quartz.ErrJobAlreadyExists) {
					bad("duplicate Push: %v", err)
				}
				if got, err := q.Get(k); err != nil || got != e1 {
					bad("Get after rejected Push returned %v, %v", got, err)
				}
				e2 := mint(p2, true)
				if err := q.Push(e2); err != nil {
					bad("replacing Push: %v", err)
				}
				read()
				if got, err := q.Get(k); err != nil || got != e2 {
					bad("Get after replacing Push returned %v, %v", got, err)
				}
				if got, err := q.Remove(k); err != nil || got != e2 {
					bad("Remove returned %v, %v", got, err)
				}
				if _, err := q.Remove(k); !errors.Is(err, quartz.ErrJobNotFound) {
					bad("second Remove: %v", err)
				}
			}
		}(g)
	}
	wg.Wait()
	if n, _ := q.Size(); n != 0 {
		bad("queue not empty at the end: %d", n)
	}
	res.Calls += calls
}

// round B: free for all without Replace and Clear: every successfully pushed entry is returned by exactly
// one Pop/Remove or is still queued at the end; nothing else is ever returned; the final drain is sorted.
func roundConserve(r *rand.Rand, res *concResult) {
	q := quartz.NewJobQueue()
	var wg sync.WaitGroup
	var mu sync.Mutex
	bad := func(format string, a ...any) {
		mu.Lock()
		if len(res.Violations) < 20 {
			res.Violations = append(res.Violations, "conservation: "+fmt.Sprintf(format, a...))
		}
		mu.Unlock()
	}
	type hist struct {
		pushed, taken []quartz.ScheduledJob
		calls         int64
	}
	hs := make([]hist, goroutines)
	seeds := make([]int64, goroutines)
	for g := range seeds {
		seeds[g] = r.Int63()
	}
	nk := 3 + r.Intn(10)
	for g := 0; g < goroutines; g++ {
		wg.Add(1)
		go func(g int) {
			defer wg.Done()
			rr := rand.New(rand.NewSource(seeds[g]))
			h := &hs[g]
			for it := 0; it < 300; it++ {
				h.calls++
				k := quartz.NewJobKeyWithGroup(fmt.Sprintf("k%d", rr.Intn(nk)), "shared")
				switch x := rr.Intn(10); {
				case x < 4:
					p := prios[rr.Intn(len(prios))]
					sj := quartz.VerifNewScheduledJob(quartz.NewJobDetail(noopJob{}, k), fixedTrigger{p}, p)
					err := q.Push(sj)
					if err == nil {
						h.pushed = append(h.pushed, sj)
					} else if !errors.Is(err, quartz.ErrJobAlreadyExists) {
						bad("Push: %v", err)
					}
				case x < 6:
					sj, err := q.Pop()
					if err == nil {
						h.taken = append(h.taken, sj)
					} else if !errors.Is(err, quartz.ErrQueueEmpty) {
						bad("Pop: %v", err)
					}
				case x < 8:
					sj, err := q.Remove(k)
					if err == nil {
						h.taken = append(h.taken, sj)
						if !sj.JobDetail().JobKey().Equals(k) {
							bad("Remove(%s) returned %s", k, sj.JobDetail().JobKey())
						}
					} else if !errors.Is(err, quartz.ErrJobNotFound) {
						bad("Remove: %v", err)
					}
				case x < 9:
					sj, err := q.Get(k)
					if err == nil && !sj.JobDetail().JobKey().Equals(k) {
						bad("Get(%s) returned %s", k, sj.JobDetail().JobKey())
					} else if err != nil && !errors.Is(err, quartz.ErrJobNotFound) {
						bad("Get: %v", err)
					}
				default:
					l, err := q.ScheduledJobs(nil)
					if err != nil {
						bad("ScheduledJobs: %v", err)
					}
					seen := map[string]bool{}
					for _, sj := range l {
						ks := sj.JobDetail().JobKey().String()
						if seen[ks] {
							bad("ScheduledJobs returned key %s twice", ks)
						}
						seen[ks] = true
					}
					if n, err := q.Size(); err != nil || n < 0 || n > nk {
						bad("Size = %d with %d keys, %v", n, nk, err)
					}
				}
			}
		}(g)
	}
	wg.Wait()
	count := map[quartz.ScheduledJob]int{}
	for g := range hs {
		res.Calls += hs[g].calls
		for _, sj := range hs[g].pushed {
			count[sj]++
		}
	}
	for sj, c := range count {
		if c != 1 {
			bad("entry %s pushed successfully %d times", sj.JobDetail().JobKey(), c)
		}
	}
	remaining, _ := q.ScheduledJobs(nil)
	if n, _ := q.Size(); n != len(remaining) {
		bad("Size %d differs from len(ScheduledJobs) %d", n, len(remaining))
	}
	// drain: sorted, and exactly the remaining entries
	var drained []quartz.ScheduledJob
	for {
		sj, err := q.Pop()
		if err != nil {
			break
		}
		drained = append(drained, sj)
		if len(drained) > len(remaining)+5 {
			bad("drain returns more entries than were queued")
			break
		}
	}
	if !sort.SliceIsSorted(drained, func(i, j int) bool { return drained[i].NextRunTime() < drained[j].NextRunTime() }) {
		bad("drain after the concurrent phase is not sorted by priority")
	}
	if len(drained) != len(remaining) {
		bad("drain returned %d entries, ScheduledJobs listed %d", len(drained), len(remaining))
	}
	for g := range hs {
		for _, sj := range hs[g].taken {
			count[sj]--
		}
	}
	for _, sj := range drained {
		count[sj]--
	}
	for sj, c := range count {
		if c > 0 {
			bad("entry %s (priority %d) was pushed but never returned (lost)", sj.JobDetail().JobKey(), sj.NextRunTime())
		} else if c < 0 {
			bad("entry %s was returned %d time(s) more than it was pushed (duplicated or invented)", sj.JobDetail().JobKey(), -c)
		}
	}
}

// round C: pushes (with Replace) and Clear: the queue never holds a key twice, and ends with entries that were pushed.
func roundClear(r *rand.Rand, res *concResult) {
	q := quartz.NewJobQueue()
	var wg sync.WaitGroup
	var mu sync.Mutex
	bad := func(format string, a ...any) {
		mu.Lock()
		if len(res.Violations) < 20 {
			res.Violations = append(res.Violations, "clear/replace: "+fmt.Sprintf(format, a...))
		}
		mu.Unlock()
	}
	var all sync.Map
	var calls int64
	seeds := make([]int64, goroutines)
	for g := range seeds {
		seeds[g] = r.Int63()
	}
	for g := 0; g < goroutines; g++ {
		wg.Add(1)
		go func(g int) {
			defer wg.Done()
			rr := rand.New(rand.NewSource(seeds[g]))
			for it := 0; it < 200; it++ {
				atomic.AddInt64(&calls, 1)
				switch x := rr.Intn(20); {
				case x == 0:
					if err := q.Clear(); err != nil {
						bad("Clear: %v", err)
					}
				case x < 4:
					l, _ := q.ScheduledJobs([]quartz.Matcher[quartz.ScheduledJob]{matcher.JobActive()})
					seen := map[string]bool{}
					for _, sj := range l {
						if _, ok := all.Load(sj); !ok {
							bad("ScheduledJobs returned an entry nobody pushed")
						}
						ks := sj.JobDetail().JobKey().String()
						if seen[ks] {
							bad("ScheduledJobs returned key %s twice", ks)
						}
						seen[ks] = true
					}
				default:
					p := prios[rr.Intn(len(prios))]
					opts := quartz.NewDefaultJobDetailOptions()
					opts.Replace = true
					k := quartz.NewJobKeyWithGroup(fmt.Sprintf("k%d", rr.Intn(6)), "shared")
					sj := quartz.VerifNewScheduledJob(quartz.NewJobDetailWithOptions(noopJob{}, k, opts), fixedTrigger{p}, p)
					all.Store(sj, true)
					if err := q.Push(sj); err != nil {
						bad("replacing Push: %v", err)
					}
				}
			}
		}(g)
	}
	wg.Wait()
	res.Calls += calls
	l, _ := q.ScheduledJobs(nil)
	if len(l) > 6 {
		bad("%d entries for 6 keys", len(l))
	}
	last := int64(math.MinInt64)
	for {
		sj, err := q.Pop()
		if err != nil {
			break
		}
		if sj.NextRunTime() < last {
			bad("drain after the concurrent phase is not sorted")
		}
		last = sj.NextRunTime()
	}
}

func cmdConc(seed int64, rounds int) {
	r := rand.New(rand.NewSource(seed))
	res := concResult{Rounds: rounds, Violations: []string{}}
	for i := 0; i < rounds; i++ {
		roundOwned(r, &res)
		roundConserve(r, &res)
		roundClear(r, &res)
	}
	b, _ := json.Marshal(res)
	fmt.Println(string(b))
}

// replay: re-run the calls of recorded "Q <id> <call> [> <result>] ; ..." lines
func parseMatchers(s string) []mspec {
	if s == "-" || s == "" {
		return nil
	}
	var ms []mspec
	for _, t := range strings.Split(s, ",") {
		if t[0] == 'T' {
			ms = append(ms, mspec{kind: 'T', op: atoi(t[1:])})
			continue
		}
		parts := strings.SplitN(t[1:], ".", 2)
		ms = append(ms, mspec{kind: t[0], op: atoi(parts[0]), pat: atoi(parts[1])})
	}
	return ms
}

func parseCall(s string) call {
	t := strings.Fields(s)
	switch t[0][0] {
	case 'P':
		prio, err := strconv.ParseInt(t[2], 10, 64)
		if err != nil {
			panic(err)
		}
		return call{kind: 'P', via: t[0][1], key: atoi(t[1]), prio: prio, susp: t[3] == "1", repl: t[4] == "1", id: atoi(t[5])}
	case 'G', 'R':
		return call{kind: t[0][0], key: atoi(t[1])}
	case 'L', 'J':
		return call{kind: t[0][0], ms: parseMatchers(t[1])}
	}
	return call{kind: t[0][0]}
}

func cmdReplay(in, path string) {
	data, err := os.ReadFile(in)
	if err != nil {
		panic(err)
	}
	f, err := os.Create(path)
	if err != nil {
		panic(err)
	}
	out := bufio.NewWriter(f)
	writeTables(out)
	for _, line := range strings.Split(string(data), "\n") {
		if !strings.HasPrefix(line, "Q ") {
			continue
		}
		rest := strings.SplitN(line[2:], " ", 2)
		var calls []call
		for _, item := range strings.Split(rest[1], " ; ") {
			c := strings.TrimSpace(strings.SplitN(item, " > ", 2)[0])
			if c != "" {
				calls = append(calls, parseCall(c))
			}
		}
		runSeq(out, rest[0], calls, true)
	}
	out.Flush()
	f.Close()
}

func atoi(s string) int {
	v, err := strconv.Atoi(s)
	if err != nil {
		panic(err)
	}
	return v
}

func main() {
	a := os.Args[1:]
	switch {
	case len(a) == 5 && a[0] == "random":
		s, _ := strconv.ParseInt(a[1], 10, 64)
		cmdRandom(s, atoi(a[2]), atoi(a[3]), a[4])
	case len(a) == 4 && a[0] == "exhaust":
		cmdExhaust(atoi(a[1]), atoi(a[2]), a[3])
	case len(a) == 2 && a[0] == "matrix":
		cmdMatrix(a[1])
	case len(a) == 3 && a[0] == "replay":
		cmdReplay(a[1], a[2])
	case len(a) == 3 && a[0] == "conc":
		s, _ := strconv.ParseInt(a[1], 10, 64)
		cmdConc(s, atoi(a[2]))
	default:
		fmt.Fprintln(os.Stderr, "usage: queueh random SEED NSEQ MAXLEN OUT | exhaust DEPTH NKEYS OUT | matrix OUT | conc SEED ROUNDS")
		os.Exit(2)
	}
}
