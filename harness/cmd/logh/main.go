// logh: correspondence harness for the loggers (C18).
//
//	logh matrix            every level x threshold x argument list on SimpleLogger, SlogLogger, NoOpLogger;
//	                       one JSON line per case with what the implementation emitted
//	logh stress G N SEED   G goroutines x N records through one SimpleLogger at mixed levels;
//	                       one JSON line with the number of lines whose label is not the record's level
//	logh shared SEED       several SimpleLoggers over one shared *log.Logger (scenarios.go)
//	logh writers G N CHUNK SEED   concurrent records into a writer that is not atomic per Write call (scenarios.go)
//	logh hostile           awkward argument values + a later record under a watchdog (scenarios.go)
package main

import (
	"bytes"
	"context"
	"encoding/json"
	"fmt"
	"log"
	"log/slog"
	"math"
	"math/rand"
	"os"
	"strconv"
	"strings"
	"sync"

	"github.com/reugn/go-quartz/logger"
)

type obsSlog struct {
	Level int        `json:"level"`
	Msg   string     `json:"msg"`
	Attrs [][]string `json:"attrs"`
}

type caseOut struct {
	Kind    string   `json:"kind"`
	Thr0    *int     `json:"thr0,omitempty"` // threshold the handler had when the logger was constructed (dynamic thresholds)
	Thr     int      `json:"thr"`
	Lvl     int      `json:"lvl"` // 0 Trace .. 4 Error
	Msg     string   `json:"msg"`
	Args    []string `json:"args"` // rendered with %v
	Simple  *string  `json:"simple,omitempty"`
	Slog    *obsSlog `json:"slog,omitempty"`
	TextOut bool     `json:"text_emitted"` // slog.TextHandler with the same minimum level wrote something
	Panic   string   `json:"panic,omitempty"`
}

func call(l logger.Logger, lvl int, msg string, args []any) {
	switch lvl {
	case 0:
		l.Trace(msg, args...)
	case 1:
		l.Debug(msg, args...)
	case 2:
		l.Info(msg, args...)
	case 3:
		l.Warn(msg, args...)
	default:
		l.Error(msg, args...)
	}
}

// recHandler records what SlogLogger hands to the slog handler; its Enabled
// is slog's documented rule (level >= minimum).
type recHandler struct {
	min  slog.Leveler
	recs []obsSlog
}

func (h *recHandler) Enabled(_ context.Context, l slog.Level) bool { return l >= h.min.Level() }
func (h *recHandler) Handle(_ context.Context, r slog.Record) error {
	o := obsSlog{Level: int(r.Level), Msg: r.Message, Attrs: [][]string{}}
	r.Attrs(func(a slog.Attr) bool {
		o.Attrs = append(o.Attrs, []string{a.Key, fmt.Sprint(a.Value.Any())})
		return true
	})
	h.recs = append(h.recs, o)
	return nil
}
func (h *recHandler) WithAttrs([]slog.Attr) slog.Handler { return h }
func (h *recHandler) WithGroup(string) slog.Handler      { return h }

type stringer struct{ s string }

func (s stringer) String() string { return s.s }

func matrix() {
	argLists := [][]any{
		{},
		{"k", "v"},
		{"odd"},
		{"k", "v", "odd"},
		{"k1", "v1", "k2", "v2"},
		{"n", 42, "b", true},
		{"nil", nil, "e", fmt.Errorf("boom")},
		{"a", "x y", "b", "", "c", stringer{"str"}, "tail"},
		{"", "emptykey"},
	}
	msgs := []string{"", "hello", "two words", "a=b, c=d", "disk 95% full", "%s %d %v", "100%"}
	thresholds := []int{-100, -9, -8, -7, -4, -1, 0, 1, 4, 7, 8, 9, 12, 13, 100}
	// thresholds at the extremes of the Level type (an int: 64 bits) and around the 32-bit limits; Level(math.MaxInt) is a
	// natural "never", Level(math.MinInt) a natural "always".  Fewer argument lists: the shape is covered above.
	extremes := []int{math.MaxInt, math.MinInt, math.MaxInt - 7, math.MinInt + 8, 1 << 31, 1<<31 - 1, -(1 << 31), -(1 << 31) - 1,
		1 << 32, 1<<32 + 4, 1<<32 - 8, -(1 << 32), -(1 << 32) - 4, 1 << 40, -(1 << 40), 1<<63 - 1<<32}
	type thrSpec struct {
		thr   int
		lists [][]any
	}
	var specs []thrSpec
	for _, thr := range thresholds {
		specs = append(specs, thrSpec{thr, argLists})
	}
	for _, thr := range extremes {
		specs = append(specs, thrSpec{thr, argLists[:2]})
	}
	enc := json.NewEncoder(os.Stdout)
	for _, sp := range specs {
		thr := sp.thr
		for lvl := 0; lvl < 5; lvl++ {
			for ai, args := range sp.lists {
				msg := msgs[(ai+lvl)%len(msgs)]
				rendered := make([]string, len(args))
				for i, a := range args {
					rendered[i] = fmt.Sprintf("%v", a)
				}
				// SimpleLogger
				func() {
					c := caseOut{Kind: "simple", Thr: thr, Lvl: lvl, Msg: msg, Args: rendered}
					defer func() {
						if r := recover(); r != nil {
							c.Panic = fmt.Sprint(r)
						}
						_ = enc.Encode(c)
					}()
					var buf bytes.Buffer
					l := logger.NewSimpleLogger(log.New(&buf, "", 0), logger.Level(thr))
					call(l, lvl, msg, args)
					if buf.Len() > 0 {
						s := strings.TrimSuffix(buf.String(), "\n")
						c.Simple = &s
					}
				}()
				// SlogLogger
				func() {
					c := caseOut{Kind: "slog", Thr: thr, Lvl: lvl, Msg: msg, Args: rendered}
					defer func() {
						if r := recover(); r != nil {
							c.Panic = fmt.Sprint(r)
						}
						_ = enc.Encode(c)
					}()
					h := &recHandler{min: slog.Level(thr)}
					l := logger.NewSlogLogger(context.Background(), slog.New(h))
					call(l, lvl, msg, args)
					if len(h.recs) > 1 {
						c.Panic = "more than one record handled"
					}
					if len(h.recs) == 1 {
						c.Slog = &h.recs[0]
					}
					var buf bytes.Buffer
					lt := logger.NewSlogLogger(context.Background(),
						slog.New(slog.NewTextHandler(&buf, &slog.HandlerOptions{Level: slog.Level(thr)})))
					call(lt, lvl, msg, args)
					c.TextOut = buf.Len() > 0
				}()
			}
			// SlogLogger over a handler whose threshold changes AFTER the logger was constructed
			for _, thr0 := range []int{-8, 0, 8, 12} {
				if thr0 == thr {
					continue
				}
				func() {
					t0 := thr0
					c := caseOut{Kind: "slog", Thr0: &t0, Thr: thr, Lvl: lvl, Msg: "dyn", Args: []string{"k", "v"}}
					defer func() {
						if r := recover(); r != nil {
							c.Panic = fmt.Sprint(r)
						}
						_ = enc.Encode(c)
					}()
					lv := new(slog.LevelVar)
					lv.Set(slog.Level(thr0))
					h := &recHandler{min: lv}
					l := logger.NewSlogLogger(context.Background(), slog.New(h))
					call(l, lvl, "warm-up", nil) // a record under the initial threshold
					h.recs = nil
					lv.Set(slog.Level(thr))
					call(l, lvl, "dyn", []any{"k", "v"})
					if len(h.recs) == 1 {
						c.Slog = &h.recs[0]
					}
					c.TextOut = slog.Level([]int{-8, -4, 0, 4, 8}[lvl]) >= slog.Level(thr)
				}()
			}
			// NoOpLogger: nothing observable may happen
			func() {
				c := caseOut{Kind: "noop", Thr: thr, Lvl: lvl, Msg: "m", Args: []string{}}
				defer func() {
					if r := recover(); r != nil {
						c.Panic = fmt.Sprint(r)
					}
					_ = enc.Encode(c)
				}()
				call(logger.NoOpLogger{}, lvl, "m", []any{"k", "v"})
			}()
		}
	}
}

type lockedBuf struct {
	mu sync.Mutex
	b  bytes.Buffer
}

func (w *lockedBuf) Write(p []byte) (int, error) {
	w.mu.Lock()
	defer w.mu.Unlock()
	return w.b.Write(p)
}

func stress(g, n int, seed int64) {
	names := []string{"TRACE", "DEBUG", "INFO", "WARN", "ERROR"}
	w := &lockedBuf{}
	l := logger.NewSimpleLogger(log.New(w, "", 0), logger.LevelTrace)
	var wg sync.WaitGroup
	start := make(chan struct{})
	for i := 0; i < g; i++ {
		wg.Add(1)
		go func(id int) {
			defer wg.Done()
			r := rand.New(rand.NewSource(seed + int64(id)))
			<-start
			for k := 0; k < n; k++ {
				lvl := (id + r.Intn(5)) % 5
				call(l, lvl, "intended="+names[lvl], []any{"g", id, "k", k})
			}
		}(i)
	}
	close(start)
	wg.Wait()
	lines := strings.Split(strings.TrimSuffix(w.b.String(), "\n"), "\n")
	bad := 0
	first := ""
	hist := map[string]int{}
	for _, ln := range lines {
		sp := strings.SplitN(ln, " ", 2)
		label := sp[0]
		hist[label]++
		ok := len(sp) == 2 && strings.HasPrefix(sp[1], "msg=intended="+label+",")
		if !ok {
			bad++
			if first == "" {
				first = ln
			}
		}
	}
	_ = json.NewEncoder(os.Stdout).Encode(map[string]any{
		"goroutines": g, "per_goroutine": n, "lines": len(lines), "expected_lines": g * n,
		"mislabelled": bad, "first_bad": first, "labels": hist,
	})
}

func main() {
	if len(os.Args) < 2 {
		fmt.Fprintln(os.Stderr, "usage: logh matrix | stress G N SEED | shared SEED | hostile | writers G N CHUNK SEED")
		os.Exit(2)
	}
	switch os.Args[1] {
	case "matrix":
		matrix()
	case "stress":
		g, _ := strconv.Atoi(os.Args[2])
		n, _ := strconv.Atoi(os.Args[3])
		seed, _ := strconv.ParseInt(os.Args[4], 10, 64)
		stress(g, n, seed)
	case "shared":
		seed, _ := strconv.ParseInt(os.Args[2], 10, 64)
		shared(seed)
	case "hostile":
		hostile()
	case "writers":
		g, _ := strconv.Atoi(os.Args[2])
		n, _ := strconv.Atoi(os.Args[3])
		chunk, _ := strconv.Atoi(os.Args[4])
		seed, _ := strconv.ParseInt(os.Args[5], 10, 64)
		writers(g, n, chunk, seed)
	default:
		os.Exit(2)
	}
}
