package main

// Round-3 scenario classes of the logger harness.
//
//	logh shared SEED   several SimpleLoggers (same or different thresholds) created at different
//	                   times over ONE shared *log.Logger; interleaved, strictly sequential emissions;
//	                   one JSON line per scenario listing every step and the lines it produced
//	logh writers G N CHUNK SEED   G goroutines x N records through ONE SimpleLogger (and ONE SlogLogger over a slog.TextHandler)
//	                   into a writer that is NOT atomic per Write call: it delivers in CHUNK-byte pieces with a yield after each
//	                   and counts Write calls that overlap in time (package log serialises Write on the wrapped log.Logger)
//	logh hostile       argument matrix with values that are legal for `...any` but awkward to format:
//	                   typed-nil pointers implementing error / fmt.Stringer, values whose Error() /
//	                   String() panic, the nil interface, nil slices / maps -- in key, value and tail
//	                   positions, on SimpleLogger and SlogLogger; every case logs a LATER record through
//	                   the same logger under a watchdog (a wedged logger = that record never appears)

import (
	"bytes"
	"context"
	"encoding/json"
	"fmt"
	"log"
	"log/slog"
	"math/rand"
	"os"
	"regexp"
	"runtime"
	"strings"
	"sync"
	"sync/atomic"
	"time"

	"github.com/reugn/go-quartz/logger"
)

// ---------------------------------------------------------------------------- shared log.Logger

type sharedStep struct {
	Op    string   `json:"op"` // "new" | "log"
	ID    int      `json:"id"` // which SimpleLogger
	Thr   int      `json:"thr"`
	Lvl   int      `json:"lvl,omitempty"`
	Msg   string   `json:"msg,omitempty"`
	Args  []string `json:"args,omitempty"`
	Out   []string `json:"out,omitempty"` // lines the shared log.Logger wrote during this step
	Panic string   `json:"panic,omitempty"`
}

type sharedScenario struct {
	Kind          string       `json:"kind"`
	Scenario      string       `json:"scenario"`
	Seed          int64        `json:"seed"`
	InitialPrefix string       `json:"initial_prefix"` // prefix the log.Logger was created with
	Steps         []sharedStep `json:"steps"`
}

type sharedRun struct {
	buf     bytes.Buffer
	base    *log.Logger
	loggers []*logger.SimpleLogger
	thr     []int
	sc      sharedScenario
	n       int
}

func newSharedRun(name string, seed int64, prefix string) *sharedRun {
	r := &sharedRun{sc: sharedScenario{Kind: "shared", Scenario: name, Seed: seed, InitialPrefix: prefix}}
	r.base = log.New(&r.buf, prefix, 0)
	return r
}

func (r *sharedRun) wrap(thr int) int {
	id := len(r.loggers)
	st := sharedStep{Op: "new", ID: id, Thr: thr}
	func() {
		defer func() {
			if p := recover(); p != nil {
				st.Panic = fmt.Sprint(p)
			}
		}()
		r.loggers = append(r.loggers, logger.NewSimpleLogger(r.base, logger.Level(thr)))
		r.thr = append(r.thr, thr)
	}()
	r.sc.Steps = append(r.sc.Steps, st)
	return id
}

var sharedArgLists = [][]any{{}, {"k", "v"}, {"odd"}, {"n", 42, "b", true}, {"k1", "v1", "k2", "v2", "tail"}}

func (r *sharedRun) log(id, lvl int, ai int) {
	if id >= len(r.loggers) {
		return
	}
	names := []string{"trace", "debug", "info", "warn", "error"}
	r.n++
	msg := fmt.Sprintf("record %d of logger %d at %s", r.n, id, names[lvl])
	args := sharedArgLists[ai%len(sharedArgLists)]
	rendered := make([]string, len(args))
	for i, a := range args {
		rendered[i] = fmt.Sprintf("%v", a)
	}
	st := sharedStep{Op: "log", ID: id, Thr: r.thr[id], Lvl: lvl, Msg: msg, Args: rendered}
	before := r.buf.Len()
	func() {
		defer func() {
			if p := recover(); p != nil {
				st.Panic = fmt.Sprint(p)
			}
		}()
		call(r.loggers[id], lvl, msg, args)
	}()
	if s := r.buf.String()[before:]; s != "" {
		st.Out = strings.Split(strings.TrimSuffix(s, "\n"), "\n")
	}
	r.sc.Steps = append(r.sc.Steps, st)
}

func shared(seed int64) {
	enc := json.NewEncoder(os.Stdout)
	// verbosity changed by wrapping the same log.Logger again (SimpleLogger has no SetLevel)
	{
		r := newSharedRun("rewrap-to-change-verbosity", seed, "")
		a := r.wrap(0)
		r.log(a, 2, 1)
		r.log(a, 1, 0)
		b := r.wrap(-4)
		r.log(b, 4, 1)
		r.log(b, 1, 2)
		r.log(a, 3, 3)
		c := r.wrap(-8)
		for lvl := 0; lvl < 5; lvl++ {
			r.log(c, lvl, lvl)
		}
		r.log(a, 4, 0)
		r.log(b, 2, 4)
		_ = enc.Encode(r.sc)
	}
	// every level used as the last record before the next wrap, same threshold everywhere
	{
		r := newSharedRun("wrap-after-each-level", seed, "")
		prev := r.wrap(-8)
		for lvl := 0; lvl < 5; lvl++ {
			r.log(prev, lvl, lvl)
			next := r.wrap(-8)
			for l2 := 4; l2 >= 0; l2-- {
				r.log(next, l2, l2+1)
			}
			r.log(prev, (lvl+2)%5, 0)
			prev = next
		}
		_ = enc.Encode(r.sc)
	}
	// all loggers created before the first record
	{
		r := newSharedRun("all-created-first", seed, "")
		ids := []int{r.wrap(-8), r.wrap(0), r.wrap(8), r.wrap(12)}
		for k := 0; k < 20; k++ {
			r.log(ids[k%4], (k*3)%5, k)
		}
		_ = enc.Encode(r.sc)
	}
	// the log.Logger comes with a prefix of the user's own
	{
		r := newSharedRun("user-prefix", seed, "[app] ")
		a := r.wrap(-4)
		r.log(a, 2, 1)
		b := r.wrap(-8)
		r.log(b, 4, 2)
		r.log(a, 3, 0)
		r.log(b, 0, 3)
		_ = enc.Encode(r.sc)
	}
	// two schedulers sharing log.Default()-like logger: random interleavings
	rnd := rand.New(rand.NewSource(seed))
	thresholds := []int{-8, -4, 0, 4, 8, 12, -100, 1}
	for k := 0; k < 8; k++ {
		r := newSharedRun(fmt.Sprintf("random-%d", k), seed, "")
		r.wrap(thresholds[rnd.Intn(len(thresholds))])
		for s := 0; s < 40; s++ {
			if len(r.loggers) < 6 && rnd.Intn(100) < 15 {
				r.wrap(thresholds[rnd.Intn(len(thresholds))])
				continue
			}
			r.log(rnd.Intn(len(r.loggers)), rnd.Intn(5), rnd.Intn(len(sharedArgLists)))
		}
		_ = enc.Encode(r.sc)
	}
}

// ---------------------------------------------------------------------------- hostile arguments

type ptrErr struct{ msg string }

func (e *ptrErr) Error() string { return e.msg } // a nil receiver is dereferenced

type ptrStr struct{ s string }

func (p *ptrStr) String() string { return p.s } // a nil receiver is dereferenced

type safeStr struct{ s string }

func (p *safeStr) String() string { // tolerates a nil receiver
	if p == nil {
		return "nil-safe"
	}
	return p.s
}

type panErr struct{}

func (panErr) Error() string { panic("boom-error") }

type panStr struct{}

func (panStr) String() string { panic("boom-string") }

type hostileOut struct {
	caseOut
	Value         string   `json:"value"`              // name of the awkward value
	Position      string   `json:"position"`           // where it sits in the argument list
	ArgsAlt       []string `json:"args_alt"`           // as args, but the arguments in key position rendered with %s (the verb a key may be formatted with)
	NoModel       bool     `json:"no_model,omitempty"` // outside the model's domain (non-string key whose rendering depends on the verb / slog !BADKEY)
	Returned      bool     `json:"returned"`           // the call came back (normally or by panic) before the watchdog
	AfterLvl      int      `json:"after_lvl"`
	AfterReturned bool     `json:"after_returned"` // a later call on the same logger came back before the watchdog
	AfterEmitted  bool     `json:"after_emitted"`  // ... and its record appeared
	AfterPanic    string   `json:"after_panic,omitempty"`
	WatchdogMs    int64    `json:"watchdog_ms"`
}

type hostileRun struct {
	out      hostileOut
	w        *lockedBuf
	text     *lockedBuf // what a slog.TextHandler with the same minimum wrote for the same call
	h        *lockedRec
	returned atomic.Bool
	afterRet atomic.Bool
	mu       sync.Mutex // guards out.Panic / out.AfterPanic written by the case's goroutine
}

// lockedRec is recHandler made safe for the watchdog reading it while a call may still run.
type lockedRec struct {
	mu sync.Mutex
	h  recHandler
}

func (l *lockedRec) Enabled(c context.Context, lv slog.Level) bool { return l.h.Enabled(c, lv) }
func (l *lockedRec) Handle(c context.Context, r slog.Record) error {
	l.mu.Lock()
	defer l.mu.Unlock()
	return l.h.Handle(c, r)
}
func (l *lockedRec) WithAttrs([]slog.Attr) slog.Handler { return l }
func (l *lockedRec) WithGroup(string) slog.Handler      { return l }

const afterMsg = "later record"

func hostile() {
	values := []struct {
		name string
		v    any
	}{
		{"typed-nil *T implementing error", (*ptrErr)(nil)},
		{"typed-nil *T implementing fmt.Stringer", (*ptrStr)(nil)},
		{"typed-nil *T whose String tolerates nil", (*safeStr)(nil)},
		{"value whose Error() panics", panErr{}},
		{"value whose String() panics", panStr{}},
		{"nil interface", nil},
		{"non-nil *T implementing error", &ptrErr{"pe"}},
		{"nil slice", []int(nil)},
		{"nil map", map[string]int(nil)},
	}
	positions := []struct {
		name string
		mk   func(x any) []any
		keys []int // indexes formatted as keys
	}{
		{"value", func(x any) []any { return []any{"k", x} }, nil},
		{"key", func(x any) []any { return []any{x, "v"} }, []int{0}},
		{"tail", func(x any) []any { return []any{"k", "v", x} }, nil},
		{"key-and-value", func(x any) []any { return []any{x, x} }, []int{0}},
		{"middle-value", func(x any) []any { return []any{"a", 1, "k", x, "z", 2} }, nil},
	}
	const watchdog = 20 * time.Second
	var runs []*hostileRun
	var wg sync.WaitGroup
	for _, thr := range []int{-8, 4, 12} {
		for lvl := 0; lvl < 5; lvl++ {
			for _, val := range values {
				for _, pos := range positions {
					for _, kind := range []string{"simple", "slog"} {
						args := pos.mk(val.v)
						rendered, alt := make([]string, len(args)), make([]string, len(args))
						noModel := false
						for i, a := range args {
							rendered[i] = fmt.Sprintf("%v", a)
							alt[i] = rendered[i]
						}
						for _, i := range pos.keys {
							alt[i] = fmt.Sprintf("%s", args[i])
							if _, isString := args[i].(string); !isString && (kind == "slog" || alt[i] != rendered[i]) {
								noModel = true
							}
						}
						r := &hostileRun{}
						r.out = hostileOut{caseOut: caseOut{Kind: kind, Thr: thr, Lvl: lvl, Msg: "hostile", Args: rendered},
							Value: val.name, Position: pos.name, ArgsAlt: alt, NoModel: noModel, AfterLvl: 4, WatchdogMs: watchdog.Milliseconds()}
						var l logger.Logger
						if kind == "simple" {
							r.w = &lockedBuf{}
							l = logger.NewSimpleLogger(log.New(r.w, "", 0), logger.Level(thr))
						} else {
							r.h = &lockedRec{h: recHandler{min: slog.Level(thr)}}
							l = logger.NewSlogLogger(context.Background(), slog.New(r.h))
						}
						var text logger.Logger
						if kind == "slog" {
							r.text = &lockedBuf{}
							text = logger.NewSlogLogger(context.Background(),
								slog.New(slog.NewTextHandler(r.text, &slog.HandlerOptions{Level: slog.Level(thr)})))
						}
						runs = append(runs, r)
						wg.Add(1)
						go func(r *hostileRun, l logger.Logger, lvl int, args []any) {
							defer wg.Done()
							func() {
								defer func() {
									if p := recover(); p != nil {
										r.mu.Lock()
										r.out.Panic = fmt.Sprint(p)
										r.mu.Unlock()
									}
									r.returned.Store(true)
								}()
								call(l, lvl, "hostile", args)
								if text != nil {
									call(text, lvl, "hostile", args)
								}
							}()
							func() {
								defer func() {
									if p := recover(); p != nil {
										r.mu.Lock()
										r.out.AfterPanic = fmt.Sprint(p)
										r.mu.Unlock()
									}
									r.afterRet.Store(true)
								}()
								call(l, 4, afterMsg, []any{"k", "v"})
							}()
						}(r, l, lvl, args)
					}
				}
			}
		}
	}
	done := make(chan struct{})
	go func() { wg.Wait(); close(done) }()
	select {
	case <-done:
	case <-time.After(watchdog):
	}
	enc := json.NewEncoder(os.Stdout)
	for _, r := range runs {
		r.mu.Lock()
		o := r.out
		r.mu.Unlock()
		o.Returned, o.AfterReturned = r.returned.Load(), r.afterRet.Load()
		if r.w != nil {
			r.w.mu.Lock()
			s := r.w.b.String()
			r.w.mu.Unlock()
			for _, ln := range strings.Split(strings.TrimSuffix(s, "\n"), "\n") {
				if ln == "" {
					continue
				}
				if strings.Contains(ln, "msg="+afterMsg) {
					o.AfterEmitted = true
				} else if o.Simple == nil {
					line := ln
					o.Simple = &line
				} else {
					o.Panic += "; more than one line for one record"
				}
			}
		} else {
			r.h.mu.Lock()
			recs := append([]obsSlog(nil), r.h.h.recs...)
			r.h.mu.Unlock()
			for i := range recs {
				if recs[i].Msg == afterMsg {
					o.AfterEmitted = true
				} else if o.Slog == nil {
					o.Slog = &recs[i]
				} else {
					o.Panic += "; more than one record handled"
				}
			}
			r.text.mu.Lock()
			o.TextOut = r.text.b.Len() > 0
			r.text.mu.Unlock()
		}
		_ = enc.Encode(o)
	}
}

// ---------------------------------------------------------------------------- round 4: a writer that relies on serialised Write calls

// fragileWriter is memory-safe (each piece is appended under a lock) but not atomic per Write call:
// when two Write calls overlap in time their pieces interleave, as they would on a chunking pipe or a
// bufio.Writer.  It counts the Write calls that started while another one was in progress.
type fragileWriter struct {
	mu       sync.Mutex
	buf      []byte
	chunk    int
	inflight atomic.Int64
	overlaps atomic.Int64
	writes   atomic.Int64
}

func (w *fragileWriter) Write(p []byte) (int, error) {
	w.writes.Add(1)
	if w.inflight.Add(1) > 1 {
		w.overlaps.Add(1)
	}
	defer w.inflight.Add(-1)
	for i := 0; i < len(p); i += w.chunk {
		j := i + w.chunk
		if j > len(p) {
			j = len(p)
		}
		w.mu.Lock()
		w.buf = append(w.buf, p[i:j]...)
		w.mu.Unlock()
		runtime.Gosched()
	}
	return len(p), nil
}

type writersOut struct {
	Kind         string `json:"kind"`
	Logger       string `json:"logger"` // simple | slog-text
	Goroutines   int    `json:"goroutines"`
	PerGoroutine int    `json:"per_goroutine"`
	Chunk        int    `json:"chunk"`
	Seed         int64  `json:"seed"`
	Expected     int    `json:"expected_lines"`
	Lines        int    `json:"lines"`
	Intact       int    `json:"intact"`  // lines that are exactly one logged record
	Torn         int    `json:"torn"`    // lines that are not (spliced / cut / duplicated)
	Missing      int    `json:"missing"` // logged records without a line of their own
	FirstTorn    string `json:"first_torn,omitempty"`
	FirstMissing string `json:"first_missing,omitempty"`
	Writes       int64  `json:"write_calls"`
	Overlaps     int64  `json:"overlapping_write_calls"`
}

var slogTime = regexp.MustCompile(`^time=\S+ `)

func writers(g, n, chunk int, seed int64) {
	names := []string{"TRACE", "DEBUG", "INFO", "WARN", "ERROR"}
	slogLv := []slog.Level{-8, -4, 0, 4, 8}
	for _, kind := range []string{"simple", "slog-text"} {
		w := &fragileWriter{chunk: chunk}
		var l logger.Logger
		if kind == "simple" {
			l = logger.NewSimpleLogger(log.New(w, "", 0), logger.LevelTrace)
		} else {
			l = logger.NewSlogLogger(context.Background(), slog.New(slog.NewTextHandler(w, &slog.HandlerOptions{Level: slog.Level(-8)})))
		}
		expected := map[string]int{}
		var emu sync.Mutex
		var wg sync.WaitGroup
		start := make(chan struct{})
		for i := 0; i < g; i++ {
			wg.Add(1)
			go func(id int) {
				defer wg.Done()
				r := rand.New(rand.NewSource(seed + int64(id)))
				mine := make([]string, 0, n)
				var ref bytes.Buffer
				refLog := slog.New(slog.NewTextHandler(&ref, &slog.HandlerOptions{Level: slog.Level(-8)}))
				<-start
				for k := 0; k < n; k++ {
					lvl := (id + r.Intn(5)) % 5
					msg := fmt.Sprintf("record %d of goroutine %d at %s", k, id, names[lvl])
					pad := strings.Repeat("x", r.Intn(40))
					args := []any{"g", id, "k", k, "pad", pad, "tail"}
					call(l, lvl, msg, args)
					if kind == "simple" {
						// the record's own label, the message, every key/value argument in order
						mine = append(mine, fmt.Sprintf("%s msg=%s, g=%d, k=%d, pad=%s, tail", names[lvl], msg, id, k, pad))
					} else {
						// what the standard library's TextHandler writes for this record (time stripped)
						ref.Reset()
						refLog.Log(context.Background(), slogLv[lvl], msg, args...)
						mine = append(mine, slogTime.ReplaceAllString(strings.TrimSuffix(ref.String(), "\n"), ""))
					}
				}
				emu.Lock()
				for _, e := range mine {
					expected[e]++
				}
				emu.Unlock()
			}(i)
		}
		close(start)
		wg.Wait()
		o := writersOut{Kind: "writers", Logger: kind, Goroutines: g, PerGoroutine: n, Chunk: chunk, Seed: seed, Expected: g * n,
			Writes: w.writes.Load(), Overlaps: w.overlaps.Load()}
		w.mu.Lock()
		text := string(w.buf)
		w.mu.Unlock()
		for _, ln := range strings.Split(strings.TrimSuffix(text, "\n"), "\n") {
			if ln == "" && text == "" {
				continue
			}
			o.Lines++
			key := ln
			if kind != "simple" {
				key = slogTime.ReplaceAllString(ln, "")
			}
			if expected[key] > 0 {
				expected[key]--
				o.Intact++
			} else {
				o.Torn++
				if o.FirstTorn == "" {
					o.FirstTorn = ln
				}
			}
		}
		for e, c := range expected {
			if c > 0 {
				o.Missing += c
				if o.FirstMissing == "" || e < o.FirstMissing {
					o.FirstMissing = e
				}
			}
		}
		_ = json.NewEncoder(os.Stdout).Encode(o)
	}
}
